//! Rust side of the libverifseam.so interposer (see /verif/seam/seam.c).
//! The symbols are looked up with dlsym so the simulator still links and can
//! report "seam absent" (exit 2) instead of failing to start.

use std::collections::HashSet;
use std::ffi::CString;

type ArmFn = unsafe extern "C" fn(u64);
type VoidFn = unsafe extern "C" fn();
type StatsFn = unsafe extern "C" fn(*mut u64);

fn sym(name: &str) -> Option<*mut libc::c_void> {
    let c = CString::new(name).unwrap();
    let p = unsafe { libc::dlsym(libc::RTLD_DEFAULT, c.as_ptr()) };
    if p.is_null() {
        None
    } else {
        Some(p)
    }
}

pub fn present() -> bool {
    sym("verif_seam_present").is_some()
}

pub fn arm(seed: u64) {
    if let Some(p) = sym("verif_seam_arm") {
        let f: ArmFn = unsafe { std::mem::transmute(p) };
        unsafe { f(seed) }
    }
}

pub fn disarm() {
    if let Some(p) = sym("verif_seam_disarm") {
        let f: VoidFn = unsafe { std::mem::transmute(p) };
        unsafe { f() }
    }
}

pub fn set_time(ns: u64) {
    if let Some(p) = sym("verif_seam_set_time") {
        let f: ArmFn = unsafe { std::mem::transmute(p) };
        unsafe { f(ns) }
    }
}

/// Fake time of the calling thread only (takes precedence over `set_time`).
pub fn set_thread_time(ns: u64) {
    if let Some(p) = sym("verif_seam_set_thread_time") {
        let f: ArmFn = unsafe { std::mem::transmute(p) };
        unsafe { f(ns) }
    }
}

pub fn clear_thread_time() {
    if let Some(p) = sym("verif_seam_clear_thread_time") {
        let f: VoidFn = unsafe { std::mem::transmute(p) };
        unsafe { f() }
    }
}

/// (getrandom calls, bytes served, faked CLOCK_REALTIME reads)
pub fn stats() -> (u64, u64, u64) {
    let mut out = [0u64; 3];
    if let Some(p) = sym("verif_seam_stats") {
        let f: StatsFn = unsafe { std::mem::transmute(p) };
        unsafe { f(out.as_mut_ptr()) }
    }
    (out[0], out[1], out[2])
}

fn hash_order_on_fresh_thread(entropy: u64) -> Vec<u32> {
    arm(entropy);
    std::thread::spawn(|| {
        let mut s: HashSet<u32> = HashSet::new();
        for i in 0..64u32 {
            s.insert(i.wrapping_mul(2654435761));
        }
        s.into_iter().collect::<Vec<_>>()
    })
    .join()
    .unwrap()
}

/// The seam self-test of DESIGN §2.4(c): same entropy => same hash iteration
/// order on two fresh threads, different entropy => different order, and
/// SystemTime::now() equals the time set.
pub fn self_test() -> Result<(), String> {
    if !present() {
        return Err("libverifseam.so is not loaded (LD_PRELOAD missing)".into());
    }
    let a = hash_order_on_fresh_thread(12345);
    let b = hash_order_on_fresh_thread(12345);
    let c = hash_order_on_fresh_thread(54321);
    if a != b {
        return Err("hash order differs under equal entropy: seam does not reach RandomState".into());
    }
    if a == c {
        return Err("hash order equal under different entropy: seam does not reach RandomState".into());
    }
    let t = 1_700_000_000_123_456_789u64;
    set_time(t);
    let now = std::time::SystemTime::now()
        .duration_since(std::time::UNIX_EPOCH)
        .map_err(|e| e.to_string())?;
    if now.as_nanos() as u64 != t {
        return Err(format!("SystemTime::now() = {} ns, expected {}", now.as_nanos(), t));
    }
    Ok(())
}
