//! Fault-injecting byte streams: the "network and disk" of svgdx's stream API.
//!
//! `SimReader` implements `BufRead`, `SimWriter` implements `Write`. Every call is a
//! yield point (if a yield function is installed) and a logical clock tick. Each
//! object records which faults actually *fired*; post-fault oracles are conditional on
//! that, never on what was merely planned.

use crate::rng::Rng;
use serde::{Deserialize, Serialize};
use std::collections::BTreeMap;
use std::io::{self, BufRead, ErrorKind, Read, Write};
use std::rc::Rc;

pub type YieldFn = Rc<dyn Fn(bool /* true = read side */)>;

pub const HARD_READ_KINDS: &[&str] = &[
    "Other",
    "ConnectionReset",
    "TimedOut",
    "WouldBlock",
    "UnexpectedEof",
    "InvalidData",
    "BrokenPipe",
];
pub const HARD_WRITE_KINDS: &[&str] = &["StorageFull", "BrokenPipe", "Other", "WouldBlock", "TimedOut"];

pub fn kind_of(name: &str) -> ErrorKind {
    match name {
        "ConnectionReset" => ErrorKind::ConnectionReset,
        "TimedOut" => ErrorKind::TimedOut,
        "WouldBlock" => ErrorKind::WouldBlock,
        "UnexpectedEof" => ErrorKind::UnexpectedEof,
        "InvalidData" => ErrorKind::InvalidData,
        "BrokenPipe" => ErrorKind::BrokenPipe,
        "StorageFull" => ErrorKind::StorageFull,
        _ => ErrorKind::Other,
    }
}

/// Corruption of the byte stream in transit (applied before the reader serves it; the
/// *effective* input of the run is the corrupted stream).
#[derive(Serialize, Deserialize, Clone, Debug, Default, PartialEq)]
pub struct Corruption {
    #[serde(default, skip_serializing_if = "Option::is_none")]
    pub truncate_at: Option<u64>,
    #[serde(default, skip_serializing_if = "Vec::is_empty")]
    pub flips: Vec<(u64, u8)>,
    /// duplicate bytes [a, b) right after themselves (transport stutter)
    #[serde(default, skip_serializing_if = "Option::is_none")]
    pub dup: Option<(u64, u64)>,
    /// swap the adjacent ranges [a, b) and [b, c) (reordering)
    #[serde(default, skip_serializing_if = "Option::is_none")]
    pub swap: Option<(u64, u64, u64)>,
}

impl Corruption {
    pub fn is_none(&self) -> bool {
        *self == Corruption::default()
    }
    pub fn apply(&self, data: &[u8]) -> Vec<u8> {
        let mut d = data.to_vec();
        if let Some((a, b, c)) = self.swap {
            let (a, b, c) = (a as usize, b as usize, c as usize);
            if a < b && b < c && c <= d.len() {
                let mut n = Vec::with_capacity(d.len());
                n.extend_from_slice(&d[..a]);
                n.extend_from_slice(&d[b..c]);
                n.extend_from_slice(&d[a..b]);
                n.extend_from_slice(&d[c..]);
                d = n;
            }
        }
        if let Some((a, b)) = self.dup {
            let (a, b) = (a as usize, b as usize);
            if a < b && b <= d.len() {
                let mut n = Vec::with_capacity(d.len() + b - a);
                n.extend_from_slice(&d[..b]);
                n.extend_from_slice(&d[a..b]);
                n.extend_from_slice(&d[b..]);
                d = n;
            }
        }
        for (off, mask) in &self.flips {
            if (*off as usize) < d.len() {
                d[*off as usize] ^= *mask;
            }
        }
        if let Some(t) = self.truncate_at {
            if (t as usize) < d.len() {
                d.truncate(t as usize);
            }
        }
        d
    }
    pub fn kinds(&self) -> Vec<&'static str> {
        let mut k = Vec::new();
        if self.truncate_at.is_some() {
            k.push("stream.truncate");
        }
        if !self.flips.is_empty() {
            k.push("stream.bitflip");
        }
        if self.dup.is_some() {
            k.push("stream.dup");
        }
        if self.swap.is_some() {
            k.push("stream.reorder");
        }
        k
    }
}

#[derive(Serialize, Deserialize, Clone, Debug, Default, PartialEq)]
pub struct ReadPlan {
    /// cyclic list of chunk sizes served per fill_buf (0 = everything left)
    #[serde(default)]
    pub chunks: Vec<u32>,
    /// 1-based fill_buf/read call numbers answered with ErrorKind::Interrupted
    #[serde(default, skip_serializing_if = "Vec::is_empty")]
    pub eintr_calls: Vec<u32>,
    /// hard error once the read position reaches this byte offset
    #[serde(default, skip_serializing_if = "Option::is_none")]
    pub hard: Option<(u64, String)>,
}

impl ReadPlan {
    pub fn transparent(&self) -> bool {
        self.hard.is_none()
    }
}

#[derive(Serialize, Deserialize, Clone, Debug, Default, PartialEq)]
pub struct WritePlan {
    /// cyclic list: most bytes accepted per write call (0 = all)
    #[serde(default)]
    pub accepts: Vec<u32>,
    #[serde(default, skip_serializing_if = "Vec::is_empty")]
    pub eintr_calls: Vec<u32>,
    /// this (1-based) write call returns Ok(0)
    #[serde(default, skip_serializing_if = "Option::is_none")]
    pub zero_at_call: Option<u32>,
    /// hard error once this many bytes have been accepted
    #[serde(default, skip_serializing_if = "Option::is_none")]
    pub hard: Option<(u64, String)>,
    #[serde(default)]
    pub flush_err: bool,
}

impl WritePlan {
    pub fn transparent(&self) -> bool {
        self.hard.is_none() && self.zero_at_call.is_none() && !self.flush_err
    }
}

#[derive(Default, Debug, Clone)]
pub struct Fired {
    pub map: BTreeMap<String, u64>,
    pub hard_read: bool,
    pub hard_write: bool,
    pub write_zero: bool,
    pub flush_err: bool,
}

impl Fired {
    fn hit(&mut self, k: &str) {
        *self.map.entry(k.to_string()).or_insert(0) += 1;
    }
}

pub struct SimReader {
    data: Vec<u8>,
    pos: usize,
    calls: u32,
    plan: ReadPlan,
    pub fired: Fired,
    yield_fn: Option<YieldFn>,
    pub max_chunk_served: usize,
}

impl SimReader {
    pub fn new(data: Vec<u8>, plan: ReadPlan, yield_fn: Option<YieldFn>) -> Self {
        SimReader {
            data,
            pos: 0,
            calls: 0,
            plan,
            fired: Fired::default(),
            yield_fn,
            max_chunk_served: 0,
        }
    }
    pub fn calls(&self) -> u32 {
        self.calls
    }
    pub fn position(&self) -> usize {
        self.pos
    }
    fn step(&mut self) -> io::Result<usize> {
        self.calls += 1;
        if let Some(y) = &self.yield_fn {
            y(true);
        }
        if self.plan.eintr_calls.contains(&self.calls) {
            self.fired.hit("read.eintr");
            return Err(io::Error::new(ErrorKind::Interrupted, "simulated EINTR"));
        }
        let mut limit = self.data.len();
        if let Some((off, kind)) = &self.plan.hard {
            let off = *off as usize;
            if self.pos >= off {
                self.fired.hit("read.hard");
                self.fired.hard_read = true;
                return Err(io::Error::new(kind_of(kind), format!("simulated read error ({kind})")));
            }
            limit = limit.min(off);
        }
        let want = if self.plan.chunks.is_empty() {
            0
        } else {
            self.plan.chunks[(self.calls as usize - 1) % self.plan.chunks.len()] as usize
        };
        let avail = limit - self.pos.min(limit);
        let n = if want == 0 { avail } else { want.min(avail) };
        if n < self.data.len() - self.pos.min(self.data.len()) {
            self.fired.hit("read.short");
        }
        self.max_chunk_served = self.max_chunk_served.max(n);
        Ok(n)
    }
}

impl Read for SimReader {
    fn read(&mut self, buf: &mut [u8]) -> io::Result<usize> {
        let n = self.step()?.min(buf.len());
        buf[..n].copy_from_slice(&self.data[self.pos..self.pos + n]);
        self.pos += n;
        Ok(n)
    }
}

impl BufRead for SimReader {
    fn fill_buf(&mut self) -> io::Result<&[u8]> {
        let n = self.step()?;
        Ok(&self.data[self.pos..self.pos + n])
    }
    fn consume(&mut self, amt: usize) {
        self.pos = (self.pos + amt).min(self.data.len());
    }
}

pub struct SimWriter {
    pub accepted: Vec<u8>,
    calls: u32,
    plan: WritePlan,
    pub fired: Fired,
    yield_fn: Option<YieldFn>,
    pub flushes: u32,
}

impl SimWriter {
    pub fn new(plan: WritePlan, yield_fn: Option<YieldFn>) -> Self {
        SimWriter {
            accepted: Vec::new(),
            calls: 0,
            plan,
            fired: Fired::default(),
            yield_fn,
            flushes: 0,
        }
    }
    pub fn calls(&self) -> u32 {
        self.calls
    }
}

impl Write for SimWriter {
    fn write(&mut self, buf: &[u8]) -> io::Result<usize> {
        self.calls += 1;
        if let Some(y) = &self.yield_fn {
            y(false);
        }
        if buf.is_empty() {
            return Ok(0);
        }
        if self.plan.eintr_calls.contains(&self.calls) {
            self.fired.hit("write.eintr");
            return Err(io::Error::new(ErrorKind::Interrupted, "simulated EINTR"));
        }
        if self.plan.zero_at_call == Some(self.calls) {
            self.fired.hit("write.zero");
            self.fired.write_zero = true;
            return Ok(0);
        }
        let mut room = buf.len();
        if let Some((off, kind)) = &self.plan.hard {
            let off = *off as usize;
            if self.accepted.len() >= off {
                self.fired.hit("write.hard");
                self.fired.hard_write = true;
                return Err(io::Error::new(kind_of(kind), format!("simulated write error ({kind})")));
            }
            room = room.min(off - self.accepted.len());
        }
        let want = if self.plan.accepts.is_empty() {
            0
        } else {
            self.plan.accepts[(self.calls as usize - 1) % self.plan.accepts.len()] as usize
        };
        let n = if want == 0 { room } else { want.min(room) };
        if n < buf.len() {
            self.fired.hit("write.short");
        }
        self.accepted.extend_from_slice(&buf[..n]);
        Ok(n)
    }
    fn flush(&mut self) -> io::Result<()> {
        self.flushes += 1;
        if let Some(y) = &self.yield_fn {
            y(false);
        }
        if self.plan.flush_err {
            self.fired.hit("write.flush_err");
            self.fired.flush_err = true;
            return Err(io::Error::new(ErrorKind::Other, "simulated flush error"));
        }
        Ok(())
    }
}

const CHUNKS: &[u32] = &[1, 2, 3, 7, 64, 4096, 0];

/// Draw a fault plan for a stream of `len` input bytes. `hard` allows hard faults.
pub fn draw_read_plan(rng: &mut Rng, len: usize, hard: bool) -> ReadPlan {
    let mut p = ReadPlan::default();
    // swarm: each kind enabled per run
    if rng.chance(3, 4) {
        let n = 1 + rng.usize(4);
        for _ in 0..n {
            p.chunks.push(*rng.pick(CHUNKS));
        }
    }
    if rng.chance(1, 2) {
        let n = 1 + rng.usize(3);
        for _ in 0..n {
            p.eintr_calls.push(1 + rng.below(40) as u32);
        }
        p.eintr_calls.sort();
        p.eintr_calls.dedup();
    }
    if hard && rng.chance(1, 2) {
        // inside the stream, so that it lands in work that is in flight
        let off = rng.below(len.max(1) as u64 + 1);
        p.hard = Some((off, rng.pick(HARD_READ_KINDS).to_string()));
    }
    p
}

pub fn draw_write_plan(rng: &mut Rng, expect_len: usize, hard: bool) -> WritePlan {
    let mut p = WritePlan::default();
    if rng.chance(3, 4) {
        let n = 1 + rng.usize(4);
        for _ in 0..n {
            p.accepts.push(*rng.pick(CHUNKS));
        }
    }
    if rng.chance(1, 2) {
        let n = 1 + rng.usize(3);
        for _ in 0..n {
            p.eintr_calls.push(1 + rng.below(30) as u32);
        }
        p.eintr_calls.sort();
        p.eintr_calls.dedup();
    }
    if hard {
        match rng.below(8) {
            0..=3 => {
                let off = rng.below(expect_len.max(1) as u64 + 1);
                p.hard = Some((off, rng.pick(HARD_WRITE_KINDS).to_string()));
            }
            4 => p.zero_at_call = Some(1 + rng.below(6) as u32),
            5 => p.flush_err = true,
            _ => {}
        }
    }
    p
}

pub fn draw_corruption(rng: &mut Rng, len: usize) -> Corruption {
    let mut c = Corruption::default();
    if len == 0 {
        return c;
    }
    match rng.below(6) {
        0 => c.truncate_at = Some(rng.below(len as u64)),
        1 => {
            let n = 1 + rng.usize(3);
            for _ in 0..n {
                c.flips.push((rng.below(len as u64), 1u8 << rng.below(8)));
            }
        }
        2 => {
            // byte-level flips that produce non-UTF-8
            c.flips.push((rng.below(len as u64), 0x80 | (rng.below(128) as u8)));
        }
        3 => {
            let a = rng.below(len as u64);
            let b = (a + 1 + rng.below(64)).min(len as u64);
            c.dup = Some((a, b));
        }
        4 => {
            let a = rng.below(len as u64);
            let b = (a + 1 + rng.below(48)).min(len as u64);
            let cc = (b + 1 + rng.below(48)).min(len as u64);
            if a < b && b < cc {
                c.swap = Some((a, b, cc));
            } else {
                c.truncate_at = Some(a);
            }
        }
        _ => {
            c.truncate_at = Some(rng.below(len as u64));
            c.flips.push((rng.below(len as u64), 1u8 << rng.below(8)));
        }
    }
    c
}
