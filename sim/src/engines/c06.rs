//! C06 — determinism across runs, threads, processes, hash seeds and clocks.
//!
//! One document + configuration, then a *history of incarnations*: repeats on one
//! simulated thread (hash keys advance per map), fresh threads re-armed with a new
//! entropy seed and a jumped clock, real `svgdx` child processes with their own
//! entropy, clock, environment and working directory. All must agree.

use crate::core::*;
use crate::docgen;
use crate::frontends::*;
use crate::rng::{self, Rng};
use crate::seam;
use crate::xmltree;
use serde::{Deserialize, Serialize};
use serde_json::Value;
use std::collections::BTreeMap;
use std::time::Duration;

pub struct C06;

#[derive(Serialize, Deserialize, Clone, Debug, PartialEq)]
pub struct Inc {
    /// "thread": fresh simulated thread; "child-file" / "child-stdin": real svgdx process
    pub kind: String,
    pub entropy: u64,
    pub clock_ns: u64,
    /// extra transforms on the same thread after the first (thread kind only)
    #[serde(default)]
    pub repeats: u8,
    #[serde(default)]
    pub env: Vec<(String, String)>,
    #[serde(default)]
    pub stack_mib: u8,
    /// transforms executed on the same thread BEFORE the one under test (history):
    /// bit 0 = same document under a perturbed configuration, bit 1 = another document
    /// under the same configuration, bit 2 = a failing document
    #[serde(default)]
    pub interfere: u8,
}

#[derive(Serialize, Deserialize, Clone, Debug, PartialEq)]
pub struct Scn {
    pub label: String,
    pub doc: Doc,
    pub cfg: Cfg,
    pub incs: Vec<Inc>,
    /// the "other document" used by interfering transforms
    #[serde(default)]
    pub other_doc: Option<Doc>,
}

/// configurations differing from `c` in exactly one field (a cache keyed on a subset of
/// the configuration collides with one of them)
fn single_field_perturbations(c: &Cfg) -> Vec<Cfg> {
    let mut v = Vec::new();
    let mut p = c.clone();
    p.font_size += 3.0;
    v.push(p);
    let mut p = c.clone();
    p.font_family = if c.font_family == "serif" { "monospace".into() } else { "serif".into() };
    v.push(p);
    let mut p = c.clone();
    p.theme = if c.theme == "dark" { "bold".into() } else { "dark".into() };
    v.push(p);
    let mut p = c.clone();
    p.seed = c.seed.wrapping_add(1);
    v.push(p);
    let mut p = c.clone();
    p.border = c.border.wrapping_add(2);
    v.push(p);
    let mut p = c.clone();
    p.scale = c.scale * 2.0;
    v.push(p);
    let mut p = c.clone();
    p.background = if c.background == "white" { "#123".into() } else { "white".into() };
    v.push(p);
    let mut p = c.clone();
    p.add_metadata = !c.add_metadata;
    v.push(p);
    let mut p = c.clone();
    p.debug = !c.debug;
    v.push(p);
    let mut p = c.clone();
    p.add_auto_styles = !c.add_auto_styles;
    v.push(p);
    let mut p = c.clone();
    p.svg_style = if c.svg_style.is_some() { None } else { Some("margin: 1px".into()) };
    v.push(p);
    let mut p = c.clone();
    p.loop_limit = c.loop_limit / 2 + 1;
    p.var_limit = c.var_limit / 2 + 1;
    p.depth_limit = c.depth_limit / 2 + 1;
    v.push(p);
    v
}

fn perturbed(c: &Cfg) -> Cfg {
    let mut p = c.clone();
    p.font_size += 3.0;
    p.font_family = if c.font_family == "serif" { "monospace".into() } else { "serif".into() };
    p.theme = if c.theme == "dark" { "bold".into() } else { "dark".into() };
    p.seed = c.seed.wrapping_add(1);
    p.border = c.border.wrapping_add(2);
    p.scale = c.scale * 2.0;
    p.background = if c.background == "white" { "#123".into() } else { "white".into() };
    p.add_metadata = !c.add_metadata;
    p.debug = !c.debug;
    p
}

const T0: u64 = 1_700_000_000_000_000_000;

/// Mask the randomised root id wherever it occurs: whatever token the root <svg> carries as
/// its id (the one permitted exception) is replaced throughout the output.
fn region_of_difference(a: &[u8], b: &[u8]) -> &'static str {
    let n = a.iter().zip(b.iter()).take_while(|(x, y)| x == y).count();
    let head = String::from_utf8_lossy(&a[..n.min(a.len())]).into_owned();
    let open = |tag: &str| -> bool {
        let o = head.rfind(&format!("<{tag}")).map(|p| p as i64).unwrap_or(-1);
        let c = head.rfind(&format!("</{tag}>")).map(|p| p as i64).unwrap_or(-1);
        o > c
    };
    if open("defs") {
        "defs"
    } else if open("style") {
        "style"
    } else if n < 200 && !head.contains('>') {
        "root"
    } else {
        "body"
    }
}

impl Engine for C06 {
    fn id(&self) -> &'static str {
        "C06"
    }
    fn runs(&self, tier: Tier) -> u64 {
        match tier {
            Tier::Quick => 320,
            Tier::Thorough => 12000,
        }
    }
    fn fresh_process_per_run(&self) -> bool {
        true
    }
    fn cpu_budget_s(&self, _tier: Tier) -> f64 {
        20.0
    }

    fn generate(&self, seed: u64, index: u64, tier: Tier, env: &WorkerEnv) -> Value {
        let rs = rng::run_seed(seed, "C06", index);
        let mut w = Rng::sub(rs, "workload");
        let mut c = Rng::sub(rs, "config");
        let mut e = Rng::sub(rs, "entropy");
        let mut k = Rng::sub(rs, "clock");
        let corpus = docgen::corpus(env);
        let (label, doc, mut cfg) = match index % 8 {
            0 | 1 if !corpus.is_empty() => {
                let (name, bytes) = &corpus[((index / 8 * 2 + index % 8) as usize) % corpus.len()];
                let mut cfg = Cfg::default();
                cfg.theme = docgen::THEMES[(index / 8) as usize % docgen::THEMES.len()].to_string();
                cfg.seed = c.below(5);
                (format!("corpus:{name}"), Doc(bytes.clone()), cfg)
            }
            2 if index % 16 == 2 => ("failing:limit".to_string(), Doc::from_str(&docgen::limit_hitting_doc(&mut w)), Cfg::default()),
            2 => {
                let (d, why) = docgen::failing_doc(&mut w);
                (format!("failing:{why}"), Doc::from_str(&d), docgen::draw_cfg(&mut c, false))
            }
            3 | 4 => (
                "feature:patterns".to_string(),
                Doc::from_str(&docgen::feature_doc(&mut w, true, true)),
                docgen::draw_cfg(&mut c, false),
            ),
            5 if index % 16 == 13 => {
                let mut d = docgen::failing_doc(&mut w);
                for _ in 0..40 {
                    if d.1.starts_with("multi-") {
                        break;
                    }
                    d = docgen::failing_doc(&mut w);
                }
                (format!("failing:{}", d.1), Doc::from_str(&d.0), Cfg::default())
            }
            6 if index % 16 == 6 => ("real-svg".to_string(), Doc::from_str(&docgen::real_svg_doc(&mut w)), docgen::draw_cfg(&mut c, false)),
            7 if index % 16 == 15 => ("intl".to_string(), Doc::from_str(&docgen::intl_doc(&mut w)), docgen::draw_cfg(&mut c, false)),
            5 if index % 16 == 5 => ("crlf".to_string(), Doc::from_str(&docgen::crlf_doc(&mut w)), docgen::draw_cfg(&mut c, false)),
            7 if index % 16 == 7 => ("failing:many".to_string(), Doc::from_str(&docgen::many_failures_doc(&mut w)), Cfg::default()),
            6 if index % 16 == 14 => ("odd-config".to_string(), Doc::from_str(&docgen::odd_config_doc(&mut w)), docgen::draw_cfg(&mut c, false)),
            5 => {
                // multi-error document: several unresolvable elements => MultiError rendering
                let n = 2 + w.usize(6);
                let mut s = String::from("<svg>\n");
                for j in 0..n {
                    s.push_str(&format!("  <rect id=\"m{j}\" xy=\"#nope{}|h\" wh=\"{}\"/>\n", w.below(4), 1 + w.below(9)));
                }
                s.push_str("</svg>\n");
                ("failing:multi-error".to_string(), Doc::from_str(&s), Cfg::default())
            }
            _ => (
                "feature".to_string(),
                Doc::from_str(&docgen::feature_doc(&mut w, false, true)),
                docgen::draw_cfg(&mut c, false),
            ),
        };
        // a quarter of the runs use local styles (the one permitted exception is then masked)
        if index % 4 == 3 {
            cfg.use_local_styles = true;
        }
        let mut incs = Vec::new();
        let n_threads = match tier {
            Tier::Quick => 6,
            Tier::Thorough => 10,
        };
        let mut clock = T0 + k.below(86_400_000_000_000);
        for j in 0..n_threads {
            // clock jumps forward, backward, or stays (skew)
            match k.below(4) {
                0 => {}
                1 => clock += k.below(3_000_000_000),
                2 => clock = clock.saturating_sub(k.below(3_600_000_000_000)),
                _ => clock += k.below(400 * 86_400_000_000_000),
            }
            incs.push(Inc {
                kind: "thread".into(),
                entropy: e.next_u64(),
                clock_ns: clock,
                repeats: if j == 0 { 2 } else { k.below(2) as u8 },
                env: vec![],
                stack_mib: if j % 2 == 0 { 8 } else { 2 },
                interfere: if j >= 2 { (k.below(8)) as u8 } else { 0 },
            });
        }
        // real processes: every 4th run in quick, every run in thorough
        let children = match tier {
            Tier::Quick => {
                if index % 4 == 1 {
                    4
                } else {
                    0
                }
            }
            Tier::Thorough => {
                if index % 2 == 1 {
                    5
                } else {
                    0
                }
            }
        };
        for j in 0..children {
            let envs: Vec<(String, String)> = match j {
                0 => vec![
                    ("LANG".into(), "C".into()),
                    ("TZ".into(), "UTC".into()),
                    ("USER".into(), "alice".into()),
                    ("NO_COLOR".into(), "1".into()),
                    ("SVGDX_DEBUG".into(), "1".into()),
                ],
                1 => vec![
                    ("LANG".into(), "de_DE.UTF-8".into()),
                    ("TZ".into(), "Asia/Tokyo".into()),
                    ("HOME".into(), "/nonexistent".into()),
                ],
                _ => vec![
                    ("LC_ALL".into(), "tr_TR.UTF-8".into()),
                    ("COLUMNS".into(), "40".into()),
                    ("USER".into(), "bob".into()),
                    ("TERM".into(), "dumb".into()),
                    ("SOURCE_DATE_EPOCH".into(), "1".into()),
                    ("RUST_LOG".into(), "trace".into()),
                ],
            };
            incs.push(Inc {
                // (child-file-out: the output goes to a file which already exists and is longer)
                kind: match j {
                    0 => "child-file",
                    1 => "child-stdin",
                    2 => "child-file-out",
                    3 => "child-stdin",
                    _ => "child-file",
                }
                .into(),
                entropy: e.next_u64(),
                clock_ns: clock + (j as u64) * 7_000_000_000,
                repeats: 0,
                env: envs,
                stack_mib: 0,
                interfere: 0,
            });
        }
        if (index % 16 == 12 || (tier == Tier::Thorough && index % 16 == 4)) && doc.as_str().is_some() {
            incs.push(Inc {
                kind: "child-watch".into(),
                entropy: e.next_u64(),
                clock_ns: clock + 33_000_000_000,
                repeats: 0,
                env: vec![],
                stack_mib: 0,
                interfere: 0,
            });
        }
        if index % 2 == 0 {
            incs.push(Inc {
                kind: "thread-neighbour".into(),
                entropy: e.next_u64(),
                clock_ns: clock + 55_000_000_000,
                repeats: 0,
                env: vec![],
                stack_mib: 8,
                interfere: 0,
            });
        }
        // the server: one real svgdx-server process, several clients sending the same document
        // at the same moment, twice (only a configuration the endpoint can express)
        if (index % 16 == 9 || index % 16 == 15 || (tier == Tier::Thorough && index % 16 == 3)) && doc.as_str().is_some() {
            cfg = Cfg::default();
            incs.push(Inc {
                kind: "server-burst".into(),
                entropy: e.next_u64(),
                clock_ns: clock + 99_000_000_000,
                repeats: 0,
                env: vec![],
                stack_mib: 0,
                interfere: 4 + k.below(8) as u8,
            });
        }
        let other_doc = Some(Doc::from_str(&docgen::feature_doc(&mut w, true, true)));
        serde_json::to_value(Scn {
            label,
            doc,
            cfg,
            incs,
            other_doc,
        })
        .unwrap()
    }

    fn execute(&self, scenario: &Value, env: &WorkerEnv) -> RunResult {
        let mut res = RunResult::default();
        let scn: Scn = match serde_json::from_value(scenario.clone()) {
            Ok(s) => s,
            Err(e) => {
                res.harness_error = Some(format!("bad scenario: {e}"));
                return res;
            }
        };
        // local styles can be requested by the configuration or by the document itself
        let local = scn.cfg.use_local_styles || scn.doc.0.windows(16).any(|w| w == b"use-local-styles");
        // (kind, entropy, clock, outcome)
        let mut obs: Vec<(String, u64, u64, Outcome)> = Vec::new();
        let run_dir = env.scratch.join("c06");
        let _ = std::fs::remove_dir_all(&run_dir);
        for (j, inc) in scn.incs.iter().enumerate() {
            res.stats.clock(inc.clock_ns);
            match inc.kind.as_str() {
                "thread" => {
                    seam::arm(inc.entropy);
                    seam::set_time(inc.clock_ns);
                    let doc = scn.doc.0.clone();
                    let cfg = scn.cfg.clone();
                    let reps = inc.repeats as usize + 1;
                    let stack = if inc.stack_mib == 0 { STACK_MAIN } else { (inc.stack_mib as usize) << 20 };
                    let interfere = inc.interfere;
                    let chunked = j % 3 == 1;
                    if chunked {
                        res.stats.probe("input_delivered_in_small_chunks");
                    }
                    let other = scn.other_doc.clone();
                    let inc_entropy = inc.entropy;
                    if interfere != 0 {
                        res.stats.probe("history_before_transform_on_same_thread");
                    }
                    let outs = on_thread(stack, move || {
                        // history: other transforms on this thread first (results ignored)
                        if interfere & 1 != 0 {
                            let _ = fe_stream_plain(&doc, &perturbed(&cfg));
                            for (i, p) in single_field_perturbations(&cfg).iter().enumerate() {
                                if i % 2 == 0 {
                                    let _ = fe_stream_plain(&doc, p);
                                } else {
                                    let _ = fe_str(&doc, p);
                                }
                            }
                        }
                        if interfere & 2 != 0 {
                            if let Some(o) = &other {
                                let _ = fe_stream_plain(&o.0, &cfg);
                                let _ = fe_stream_plain(&o.0, &perturbed(&cfg));
                            }
                        }
                        if interfere & 4 != 0 {
                            // failing transforms, early and late (after output has begun),
                            // through both library entry points
                            // (and one which runs into a limit, configured or internal)
                            let lim = docgen::limit_hitting_doc(&mut Rng::sub(inc_entropy, "limit-history"));
                            let _ = fe_str(lim.as_bytes(), &cfg);
                            for bad in [
                                "<svg><rect xy=\"#nope|h\" wh=\"1\"/><g fill=\"red\"><rect xy=\"#nope2|h\"/></g></svg>",
                                "<!-- stale --><svg width=\"wide\"><rect wh=\"5\" text=\"stale\"/></svg>",
                                "<svg height=\"1-2cm\"><rect wh=\"5\" class=\"d-red\"/></svg>",
                                "<svg><rect wh=\"{{(1}}\"/></svg>",
                            ] {
                                let _ = fe_str(bad.as_bytes(), &cfg);
                                let _ = fe_stream_plain(bad.as_bytes(), &cfg);
                            }
                        }
                        let mut v = Vec::new();
                        for r in 0..reps {
                            // alternate the two library entry points
                            let o = if r % 2 == 1 {
                                fe_str(&doc, &cfg).unwrap_or_else(|| fe_stream_plain(&doc, &cfg).0)
                            } else if chunked {
                                // the same bytes delivered in small pieces
                                let rp = crate::simio::ReadPlan {
                                    chunks: vec![5, 1, 60, 3],
                                    ..Default::default()
                                };
                                let wp = crate::simio::WritePlan {
                                    accepts: vec![7, 2],
                                    ..Default::default()
                                };
                                fe_stream(&doc, &cfg, &rp, &wp, None).outcome
                            } else {
                                fe_stream_plain(&doc, &cfg).0
                            };
                            v.push(o);
                        }
                        v
                    });
                    match outs {
                        Ok(v) => {
                            for (r, o) in v.into_iter().enumerate() {
                                res.stats.evaluations += 1;
                                res.stats.frontend(if r % 2 == 1 { "str" } else { "stream" });
                                res.stats.outcome(o.class());
                                if r > 0 {
                                    res.stats.probe("repeat_on_same_thread");
                                } else {
                                    res.stats.probe("fresh_thread_new_entropy");
                                }
                                obs.push((format!("thread#{j}.{r}"), inc.entropy, inc.clock_ns, o));
                            }
                        }
                        Err(e) => {
                            res.harness_error = Some(e);
                            return res;
                        }
                    }
                }
                "thread-neighbour" => {
                    // the transform under test on one simulated thread, a neighbour on another
                    // which keeps transforming other documents under a configuration as far
                    // from this one as it can be (every limit raised, every option flipped);
                    // the turnstile interleaves the two at every element and attribute
                    use crate::turnstile::{Policy, Sched, Site, Turnstile};
                    seam::arm(inc.entropy);
                    seam::set_time(inc.clock_ns);
                    let policy = match inc.entropy % 3 {
                        0 => Policy::Uniform,
                        1 => Policy::Sticky { keep: 12 },
                        _ => Policy::Pct { d: 3, horizon: 200 },
                    };
                    let ts = Turnstile::new(Sched::draw(inc.entropy, policy, 2), 4_000_000);
                    ts.register(0);
                    ts.register(1);
                    let mut far = perturbed(&scn.cfg);
                    far.depth_limit = 1000;
                    far.loop_limit = 100_000;
                    far.var_limit = 1_000_000;
                    far.seed = scn.cfg.seed.wrapping_add(17);
                    // (many short transforms, so that the neighbour also STARTS transforms - applies
                    // its configuration - at every point of the one under test)
                    let mut neighbour_docs: Vec<Vec<u8>> = vec![scn.other_doc.as_ref().map(|d| d.0.clone()).unwrap_or_default()];
                    let mut nr = Rng::sub(inc.entropy, "neighbour");
                    for k in 0..14 {
                        neighbour_docs.push(match k % 3 {
                            0 => b"<svg><rect wh=\"1\"/></svg>".to_vec(),
                            1 => format!("<svg><rect wh=\"{}\" text=\"n{}\"/><circle cxy=\"^@br\" r=\"1\"/></svg>", 1 + nr.below(9), nr.below(99)).into_bytes(),
                            _ => b"<svg><config border=\"2\"/><var a=\"1\"/><rect wh=\"{{$a + 1}}\" text=\"t\"/></svg>".to_vec(),
                        });
                    }
                    neighbour_docs.push(scn.doc.0.clone());
                    let hook = |ts: std::sync::Arc<Turnstile>, tid: usize| {
                        svgdx::verif::set_callback(Some(Box::new(move |site| {
                            let s = match site {
                                svgdx::verif::Site::ElemEnter => Site::ElemEnter,
                                svgdx::verif::Site::ElemExit { .. } => Site::ElemExit,
                                svgdx::verif::Site::RngDraw => Site::RngDraw,
                                svgdx::verif::Site::AttrEval => Site::AttrEval,
                            };
                            ts.yield_point(tid, s);
                        })));
                    };
                    let (ts0, ts1) = (ts.clone(), ts.clone());
                    let h0 = std::thread::Builder::new().stack_size(STACK_MAIN).spawn(move || {
                        ts0.begin(0);
                        hook(ts0.clone(), 0);
                        let _ = std::panic::catch_unwind(std::panic::AssertUnwindSafe(|| {
                            for d in &neighbour_docs {
                                ts0.yield_point(0, Site::Req);
                                let _ = fe_stream_plain(d, &far);
                            }
                        }));
                        svgdx::verif::set_callback(None);
                        ts0.finish(0);
                    });
                    let (doc, cfg) = (scn.doc.0.clone(), scn.cfg.clone());
                    let h1 = std::thread::Builder::new().stack_size(STACK_MAIN).spawn(move || {
                        ts1.begin(1);
                        hook(ts1.clone(), 1);
                        let o = std::panic::catch_unwind(std::panic::AssertUnwindSafe(|| {
                            ts1.yield_point(1, Site::Req);
                            fe_stream_plain(&doc, &cfg).0
                        }));
                        svgdx::verif::set_callback(None);
                        ts1.finish(1);
                        o.unwrap_or(Outcome::Budget)
                    });
                    let (h0, h1) = match (h0, h1) {
                        (Ok(a), Ok(b)) => (a, b),
                        _ => {
                            res.harness_error = Some("spawn".into());
                            return res;
                        }
                    };
                    ts.run();
                    let _ = h0.join();
                    let o = h1.join().unwrap_or(Outcome::Budget);
                    let switches = ts.with_state(|s| s.switches);
                    res.stats.evaluations += 1;
                    res.stats.frontend("stream");
                    res.stats.probe("transform_interleaved_with_a_far_configured_neighbour");
                    res.stats.probe_n("neighbour_context_switches", switches);
                    if !matches!(o, Outcome::Budget) {
                        obs.push((format!("thread-nb#{j}"), inc.entropy, inc.clock_ns, o));
                    }
                }
                "child-watch" => {
                    // the command in --watch mode, started when an output file which is NEWER than
                    // the input is already there (left by an earlier run, another configuration)
                    if !matches!(obs.first().map(|o| &o.3), Some(Outcome::Ok(b)) if !b.is_empty()) {
                        continue;
                    }
                    let dir = run_dir.join(format!("w{j}"));
                    let junk = vec![b'Z'; 2 * scn.doc.0.len() + 9000];
                    let w = match watch_session(env, scn.cfg.to_cli_args(), &dir, &[scn.doc.0.clone()], Some(&junk), inc.clock_ns, Duration::from_secs(15)) {
                        Ok(w) => w,
                        Err(e) => {
                            res.harness_error = Some(format!("watch session: {e}"));
                            return res;
                        }
                    };
                    res.stats.evaluations += 1;
                    res.stats.frontend("child-watch");
                    res.stats.probe("watch_started_over_a_newer_output_file");
                    let o = match w.first() {
                        Some(o) if o.changed => Outcome::Ok(o.out.clone().unwrap_or_default()),
                        Some(o) if o.failure_reported => Outcome::Err(String::new()),
                        _ => Outcome::Panic("the watching command neither rendered nor reported a failure within 15 s".into()),
                    };
                    obs.push((format!("child-watch#{j}"), inc.entropy, inc.clock_ns, o));
                }
                "server-burst" => {
                    // (for the server an empty rendering is "400 Empty response": see C07)
                    if matches!(obs.first().map(|o| &o.3), Some(Outcome::Ok(b)) if b.is_empty()) {
                        continue;
                    }
                    let mut srv = match ServerChild::start(env, server_port()) {
                        Ok(s) => s,
                        Err(e) => {
                            res.harness_error = Some(format!("svgdx-server: {e}"));
                            return res;
                        }
                    };
                    let n = inc.interfere.max(2) as usize;
                    let mut all = http_burst(srv.port, &scn.doc.0, None, n, 2, Duration::from_secs(30));
                    // and four single requests put on the wire in unusual but valid ways
                    all.extend(http_post_sweep(srv.port, &scn.doc.0, None, Duration::from_secs(30)));
                    let alive = srv.alive();
                    drop(srv);
                    res.stats.frontend("server-burst");
                    res.stats.probe("server_answers_to_simultaneous_requests");
                    for (i, h) in all.into_iter().enumerate() {
                        res.stats.evaluations += 1;
                        let o = match h {
                            Some(h) if h.status == 200 => Outcome::Ok(h.body),
                            Some(h) if h.status == 400 => Outcome::Err(String::from_utf8_lossy(&h.body).into_owned()),
                            Some(h) => Outcome::Panic(format!("http status {}", h.status)),
                            None => Outcome::Panic(format!("no HTTP response (server {})", if alive { "alive" } else { "died" })),
                        };
                        obs.push((format!("server#{j}.{i}"), inc.entropy, inc.clock_ns, o));
                    }
                }
                k @ ("child-file" | "child-stdin" | "child-file-out") => {
                    let dir = run_dir.join(format!("p{j}"));
                    if let Err(e) = std::fs::create_dir_all(&dir) {
                        res.harness_error = Some(format!("mkdir: {e}"));
                        return res;
                    }
                    let mut args = scn.cfg.to_cli_args();
                    let stdin_data;
                    if k == "child-file" || k == "child-file-out" {
                        if let Err(e) = std::fs::write(dir.join("in.xml"), &scn.doc.0) {
                            res.harness_error = Some(format!("write: {e}"));
                            return res;
                        }
                        args.push("in.xml".into());
                        if k == "child-file-out" {
                            // left over from an earlier, larger rendering
                            let junk = vec![b'Z'; 3 * scn.doc.0.len() + 60_000];
                            if let Err(e) = std::fs::write(dir.join("out.svg"), &junk) {
                                res.harness_error = Some(format!("write: {e}"));
                                return res;
                            }
                            args.push("-o".into());
                            args.push("out.svg".into());
                        }
                        stdin_data = None;
                    } else {
                        stdin_data = Some(scn.doc.0.as_slice());
                    }
                    let cr = run_child(
                        env,
                        "svgdx",
                        ChildSpec {
                            args,
                            stdin: stdin_data,
                            cwd: &dir,
                            entropy: Some(inc.entropy),
                            fake_time_ns: Some(inc.clock_ns),
                            env: inc.env.clone(),
                            env_remove: vec![],
                            timeout: Duration::from_secs(30),
                            stdout_to: None,
                            stdin_file: None,
                            stderr_to: None,
                        },
                    );
                    let cr = match cr {
                        Ok(c) => c,
                        Err(e) => {
                            res.harness_error = Some(e);
                            return res;
                        }
                    };
                    res.stats.evaluations += 1;
                    res.stats.frontend(k);
                    res.stats.probe("fresh_process_new_entropy");
                    let o = if cr.timed_out {
                        Outcome::Budget
                    } else if cr.signal.is_some() {
                        Outcome::Panic(format!("killed by signal {:?}", cr.signal))
                    } else if cr.code == Some(0) && k == "child-file-out" {
                        match std::fs::read(dir.join("out.svg")) {
                            Ok(b) => Outcome::Ok(b),
                            Err(e) => Outcome::Err(format!("output file unreadable: {e}")),
                        }
                    } else if cr.code == Some(0) {
                        Outcome::Ok(cr.stdout.clone())
                    } else if cr.code == Some(101) {
                        Outcome::Panic(String::from_utf8_lossy(&cr.stderr).into_owned())
                    } else {
                        // the command's message is its error: compared between command incarnations
                        // of the same kind (never with the library's error value)
                        Outcome::Err(String::from_utf8_lossy(&cr.stderr).into_owned())
                    };
                    res.stats.outcome(o.class());
                    obs.push((format!("{k}#{j}"), inc.entropy, inc.clock_ns, o));
                }
                other => {
                    res.harness_error = Some(format!("unknown incarnation kind {other}"));
                    return res;
                }
            }
        }
        let _ = std::fs::remove_dir_all(&run_dir);
        seam::disarm();

        // ---- oracle: all incarnations agree with the first one
        let entropies: std::collections::BTreeSet<u64> = obs.iter().map(|o| o.1).collect();
        res.stats.nontrivial = entropies.len() >= 2;
        let class0 = obs.first().map(|o| o.3.class()).unwrap_or("none");
        res.stats.fingerprint = rng::mix(
            rng::hash_bytes(&scn.doc.0),
            rng::mix(rng::hash_str(&serde_json::to_string(&scn.cfg).unwrap()), rng::hash_str(class0)),
        );
        // the command's own error text: compared between the child-process incarnations
        // (a library error value and the command's message need not be the same text)
        let mut first_child_err: BTreeMap<String, (String, String)> = BTreeMap::new();
        for (k, _e, _c, o) in obs.iter() {
            if let (true, Outcome::Err(text)) = (k.starts_with("child"), o) {
                // (a message may name the input: commands are compared with commands fed the same way)
                let family = k.split('#').next().unwrap_or("child").to_string();
                match first_child_err.get(&family) {
                    None => {
                        first_child_err.insert(family, (k.clone(), text.clone()));
                    }
                    Some((k1, t1)) => {
                        res.stats.probe("child_error_texts_compared");
                        if t1 != text {
                            res.violation(
                                "determinism/error-differs",
                                "c06:error-differs:command",
                                format!("the command reported a different error in incarnation {k} than in {k1}: {:?} vs {:?}", shorten(text, 600), shorten(t1, 600)),
                            );
                            break;
                        }
                    }
                }
            }
        }
        if let Some((k0, _e0, c0, first)) = obs.first().cloned() {
            for (k, _e, c, o) in obs.iter().skip(1) {
                let is_child = k.starts_with("child") || k.starts_with("server");
                match (&first, o) {
                    (Outcome::Ok(a), Outcome::Ok(b)) => {
                        let _ = (c, c0);
                        let (a, b) = if local && a != b {
                            res.stats.probe("local_id_masked_compare");
                            mask_local_id_pair(a, b)
                        } else {
                            (a.clone(), b.clone())
                        };
                        if a != b {
                            let region = region_of_difference(&a, &b);
                            res.violation(
                                "determinism/bytes-differ",
                                &format!("c06:bytes-differ:{region}"),
                                format!(
                                    "incarnation {k} produced different bytes than {k0} (first difference inside <{region}>): {} vs {}",
                                    o.brief(),
                                    first.brief()
                                ),
                            );
                        }
                    }
                    (Outcome::Err(a), Outcome::Err(b)) => {
                        if !is_child && a != b {
                            res.violation(
                                "determinism/error-differs",
                                "c06:error-differs",
                                format!("incarnation {k} returned a different error than {k0}: {:?} vs {:?}", shorten(b, 400), shorten(a, 400)),
                            );
                        }
                    }
                    (a, b) if a.class() == b.class() && matches!(a, Outcome::Panic(_) | Outcome::Budget) => {
                        // totality is C01's business; equal class is deterministic enough here
                    }
                    (a, b) => {
                        res.violation(
                            "determinism/outcome-class-differs",
                            "c06:class-differs",
                            format!("incarnation {k}: {} but {k0}: {}", b.brief(), a.brief()),
                        );
                    }
                }
            }
        }
        res
    }

    fn shrink(&self, scenario: &Value) -> Vec<Value> {
        let scn: Scn = match serde_json::from_value(scenario.clone()) {
            Ok(s) => s,
            Err(_) => return vec![],
        };
        let mut out = Vec::new();
        // fewer incarnations
        if scn.incs.len() > 2 {
            let mut s = scn.clone();
            s.incs.truncate(2);
            out.push(s);
            let mut s = scn.clone();
            s.incs = vec![scn.incs[0].clone(), scn.incs[scn.incs.len() - 1].clone()];
            out.push(s);
            for i in 1..scn.incs.len() {
                let mut s = scn.clone();
                s.incs.remove(i);
                out.push(s);
            }
        }
        for i in 0..scn.incs.len() {
            if scn.incs[i].interfere != 0 {
                for bit in [1u8, 2, 4] {
                    if scn.incs[i].interfere & bit != 0 {
                        let mut s = scn.clone();
                        s.incs[i].interfere &= !bit;
                        out.push(s);
                    }
                }
            }
        }
        for i in 0..scn.incs.len() {
            if scn.incs[i].repeats > 0 {
                let mut s = scn.clone();
                s.incs[i].repeats = 0;
                out.push(s);
            }
        }
        if scn.cfg != Cfg::default() {
            let mut s = scn.clone();
            s.cfg = Cfg::default();
            s.cfg.use_local_styles = scn.cfg.use_local_styles;
            out.push(s);
        }
        for d in xmltree::shrink_candidates(&scn.doc.0) {
            let mut s = scn.clone();
            s.doc = Doc(d);
            out.push(s);
        }
        out.into_iter().map(|s| serde_json::to_value(s).unwrap()).collect()
    }

    fn rule(&self) -> &'static str {
        "run = one (document, configuration) executed by a history of incarnations (fresh threads with re-armed entropy and jumped clock, repeats on one thread, real svgdx child processes with own entropy/clock/env/cwd); distinct by (document, configuration, outcome class) fingerprint; non-trivial = at least two incarnations with different entropy seeds were compared"
    }
    fn components_real(&self) -> Vec<&'static str> {
        vec![
            "svgdx library (transform_stream, transform_str)",
            "quick-xml",
            "rand_pcg",
            "real svgdx binary as child process (file and stdin input)",
        ]
    }
    fn components_stub(&self) -> Vec<&'static str> {
        vec![
            "OS entropy: getrandom interposed by libverifseam.so (every RandomState in svgdx and its dependencies)",
            "wall clock: clock_gettime(CLOCK_REALTIME) interposed",
        ]
    }
    fn assumptions(&self) -> Vec<&'static str> {
        vec![
            "interposed getrandom/clock_gettime reach every RandomState and SystemTime in the process (self-tested in every worker before the first run)",
            "the CLI's Debug rendering of an error on stderr is not part of 'the error'; for child processes only the outcome class is compared",
            "CLOCK_MONOTONIC and address-space layout are not simulated; a dependence on them would show up as an unexplained difference between incarnations (still reported)",
        ]
    }
}
