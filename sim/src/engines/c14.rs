//! C14 (partial) — exactly-once evaluation and fail-on-malformed under the retry machine.
//!
//! Clause (b): the hidden state is the position of the document PRNG stream. Beacons
//! `randint(0, 999999)` are placed at every site of the element pipeline that evaluates
//! attributes (geometry, text, data/class/comment attributes, var, loop count, if test,
//! group attributes, reuse attributes, template bodies); an occurrence-counting interpreter
//! gives the ordered draws, svgdx's own output for a flat calibration document gives their
//! values (no PRNG algorithm is assumed; Pcg32 is stepped alongside as a probe).
//! Clause (c): malformed expressions at those sites - alone and next to elements that
//! need a retry - must fail the transform.
//! Clause (a) (arithmetic semantics of a pure evaluator) is NOT decided here.

use crate::core::*;
use crate::frontends::*;
use crate::rng::{self, Rng};
use crate::xmltree::{self, Node};
use rand::{Rng as _, SeedableRng};
use rand_pcg::Pcg32;
use serde::{Deserialize, Serialize};
use serde_json::Value;

pub struct C14;

#[derive(Serialize, Deserialize, Clone, Debug, PartialEq)]
pub enum Item {
    /// one beacon at the named site
    Beacon { j: u32, site: String },
    /// `random()` printed in a text attribute
    RandomF { j: u32 },
    /// <config seed=..>
    Reseed { seed: u64 },
    /// loop with a fixed or random (randint(1,3)) count
    Loop { j: u32, random_count: bool, count: u32, body: Vec<Item> },
    /// if with a fixed or random (randint(0,1)) test
    If { j: u32, random_test: bool, test: bool, body: Vec<Item> },
    Group { j: u32, attr_beacon: bool, body: Vec<Item> },
    /// reuse of template `t` with a beacon attribute
    Reuse { j: u32, t: usize, attr_beacon: bool },
    /// loop with a loop variable whose start / step may contain a random call
    LoopVar { j: u32, count: u32, random_start: bool, random_step: bool, start: i32, step: i32, body: Vec<Item> },
    /// loop repeated until a random test is non-zero (tested after each pass)
    Until { j: u32, body: Vec<Item> },
    /// a leaf template whose OWN attributes hold the occurrence, and `n` reuses of it:
    /// kind 0 = beacon in a data attribute, 1 = one expression in the compound `wh`
    ReuseLeaf { j: u32, kind: u8, n: u8 },
    /// two textually identical blocks in one attribute value
    TwoBlocks { j: u32, site: u8 },
    /// a group attribute holding the occurrence, read as a variable by `reads` children (a
    /// group's attributes are variables holding the expression TEXT: the group's own output
    /// attribute is one evaluation, every reading child is one more)
    GroupLazy { j: u32, reads: u8, in_id: bool },
    /// an element whose expression holds `n` occurrences as function arguments; whatever the
    /// function does with them, every argument is an occurrence (the value is not observed)
    Args { j: u32, n: u8, form: u8 },
    /// a <defaults> block (no random occurrence of its own)
    Defaults,
    /// element without any random occurrence
    Plain,
}

#[derive(Serialize, Deserialize, Clone, Debug, PartialEq)]
pub struct Scn {
    /// "once" | "malformed"
    pub mode: String,
    pub seed: u64,
    pub templates: Vec<Vec<Item>>,
    pub items: Vec<Item>,
    /// malformed mode: the complete document and its labels
    #[serde(default)]
    pub doc: Option<String>,
    #[serde(default)]
    pub label: String,
    /// configuration fields which must not influence the random stream
    #[serde(default)]
    pub cfg: Option<Cfg>,
}

const SITES: &[&str] = &[
    "x", "xy", "text", "textel", "data", "data-huge", "class", "comment", "var", "circle-r", "line-x2", "points", "wh", "style", "id-ref", "id", "g-id", "eq-bounds",
];

fn fstr(x: f32) -> String {
    if x.abs() < 0.0001 {
        return "0".to_string();
    }
    if x == (x as i32) as f32 {
        return (x as i32).to_string();
    }
    let result = format!("{x:.3}");
    result.trim_end_matches('0').trim_end_matches('.').into()
}

const B: &str = "{{randint(0, 999999)}}";
/// a draw whose bounds coincide still consumes one step of the stream
const BEQ: &str = "{{randint(7, 7)}}";

fn render_items(items: &[Item], in_template: bool, out: &mut String) {
    for it in items {
        match it {
            Item::Beacon { j, site } => {
                let m = if in_template { format!("${{m}}t{j}") } else { format!("b{j}") };
                let idp = if in_template { format!("${{m}}e{j}") } else { format!("e{j}") };
                let s = match site.as_str() {
                    "x" => format!("<rect id=\"{idp}\" x=\"{B}\" y=\"0\" width=\"1\" height=\"1\"/>"),
                    "xy" => format!("<rect id=\"{idp}\" xy=\"{B} 3\" wh=\"2\"/>"),
                    "wh" => format!("<rect id=\"{idp}\" xy=\"1 1\" wh=\"{B} 2\"/>"),
                    "text" => format!("<rect xy=\"0 {j}\" wh=\"2\" text=\"{m}_{B}\"/>"),
                    "textel" => format!("<text xy=\"0 {j}\">{m}_{B}</text>"),
                    "data" => format!("<rect xy=\"0 {j}\" wh=\"2\" data-k=\"{m}_{B}\"/>"),
                    "data-huge" => format!("<rect xy=\"0 {j}\" wh=\"2\" data-k=\"{m}_{B} {}\"/>", "z".repeat(66_000)),
                    "class" => format!("<rect xy=\"0 {j}\" wh=\"2\" class=\"{m}_{{{{randint(0,999999)}}}}\"/>"),
                    "style" => format!("<rect xy=\"0 {j}\" wh=\"2\" style=\"--k:{m}_{B}\"/>"),
                    "comment" => format!("<rect xy=\"0 {j}\" wh=\"2\" _=\"{m}_{B}\"/>"),
                    "var" => format!("<var v{j}=\"{B}\"/><text xy=\"0 {j}\" text=\"{m}_$v{j}\"/>"),
                    "circle-r" => format!("<circle id=\"{idp}\" cxy=\"0 0\" r=\"{{{{randint(1, 999999)}}}}\"/>"),
                    "line-x2" => format!("<line id=\"{idp}\" xy1=\"0 0\" xy2=\"{B} 5\"/>"),
                    "points" => format!("<polyline id=\"{idp}\" points=\"0 0 {B} 5\"/>"),
                    // the id itself is computed (elements are registered by id before they are evaluated)
                    "id" => format!("<rect id=\"{m}_{B}\" xy=\"0 {j}\" wh=\"2\"/>"),
                    "eq-bounds" => format!("<rect xy=\"0 {j}\" wh=\"2\" data-k=\"{m}_{BEQ}\"/>"),
                    "g-id" => format!("<g id=\"{m}_{B}\"><rect xy=\"0 {j}\" wh=\"2\"/></g>"),
                    _ => format!("<rect xy=\"0 {j}\" wh=\"2\" data-r=\"{m}_{B}\"/>"),
                };
                out.push_str(&s);
                out.push('\n');
            }
            Item::RandomF { j } => {
                let m = if in_template { format!("${{m}}t{j}") } else { format!("b{j}") };
                out.push_str(&format!("<rect xy=\"0 {j}\" wh=\"2\" text=\"{m}_{{{{random()}}}}\"/>\n"));
            }
            Item::Reseed { seed } => out.push_str(&format!("<config seed=\"{seed}\"/>\n")),
            Item::Loop { j, random_count, count, body } => {
                let c = if *random_count { "{{randint(1, 3)}}".to_string() } else { count.to_string() };
                out.push_str(&format!("<loop count=\"{c}\"><rect class=\"l{j}\" wh=\"1\"/>\n"));
                render_items(body, in_template, out);
                out.push_str("</loop>\n");
            }
            Item::If { j, random_test, test, body } => {
                let c = if *random_test { "{{randint(0, 1)}}".to_string() } else { (*test as u8).to_string() };
                out.push_str(&format!("<if test=\"{c}\"><rect class=\"i{j}\" wh=\"1\"/>\n"));
                render_items(body, in_template, out);
                out.push_str("</if>\n");
            }
            Item::Group { j, attr_beacon, body } => {
                if *attr_beacon {
                    out.push_str(&format!("<g data-k=\"b{j}_{B}\">\n"));
                } else {
                    out.push_str("<g>\n");
                }
                render_items(body, in_template, out);
                out.push_str("</g>\n");
            }
            Item::Reuse { j, t, attr_beacon } => {
                if *attr_beacon {
                    out.push_str(&format!("<reuse href=\"#t{t}\" m=\"b{j}\" k=\"{B}\"/>\n"));
                } else {
                    out.push_str(&format!("<reuse href=\"#t{t}\" m=\"b{j}\" k=\"0\"/>\n"));
                }
            }
            Item::LoopVar { j, count, random_start, random_step, start, step, body } => {
                let st = if *random_start { "{{randint(0, 5)}}".to_string() } else { start.to_string() };
                let sp = if *random_step { "{{randint(1, 3)}}".to_string() } else { step.to_string() };
                out.push_str(&format!(
                    "<loop count=\"{count}\" loop-var=\"i{j}\" start=\"{st}\" step=\"{sp}\"><rect class=\"l{j}\" wh=\"1\" data-i=\"v{j}_$i{j}\"/>\n"
                ));
                render_items(body, in_template, out);
                out.push_str("</loop>\n");
            }
            Item::Until { j, body } => {
                out.push_str(&format!("<loop until=\"{{{{randint(0, 1)}}}}\"><rect class=\"l{j}\" wh=\"1\"/>\n"));
                render_items(body, in_template, out);
                out.push_str("</loop>\n");
            }
            Item::ReuseLeaf { j, kind, n } => {
                if *kind == 0 {
                    out.push_str(&format!("<specs><rect id=\"lf{j}\" wh=\"2\" data-k=\"lf{j}_{B}\"/></specs>\n"));
                } else {
                    out.push_str(&format!("<specs><rect id=\"lf{j}\" wh=\"{{{{randint(1, 999999)}}}}\"/></specs>\n"));
                }
                for _ in 0..*n {
                    out.push_str(&format!("<reuse href=\"#lf{j}\"/>\n"));
                }
            }
            Item::TwoBlocks { j, site } => {
                let m = if in_template { format!("${{m}}t{j}") } else { format!("b{j}") };
                let s = match site {
                    0 => format!("<rect xy=\"0 {j}\" wh=\"2\" data-k=\"{m}a_{B} {m}b_{B}\"/>"),
                    1 => format!("<rect xy=\"0 {j}\" wh=\"2\" text=\"{m}a_{B} {m}b_{B}\"/>"),
                    2 => format!("<text xy=\"0 {j}\">{m}a_{B} {m}b_{B}</text>"),
                    _ => format!("<var w{j}=\"{m}a_{B} {m}b_{B}\"/><text xy=\"0 {j}\" text=\"$w{j}\"/>"),
                };
                out.push_str(&s);
                out.push('\n');
            }
            Item::GroupLazy { j, reads, in_id } => {
                out.push_str(&format!("<g lz{j}=\"{B}\">"));
                for r in 0..*reads {
                    if *in_id {
                        out.push_str(&format!("<rect id=\"b{j}r{r}_$lz{j}\" xy=\"0 {j}\" wh=\"2\"/>"));
                    } else {
                        out.push_str(&format!("<rect xy=\"0 {j}\" wh=\"2\" data-k=\"b{j}r{r}_$lz{j}\"/>"));
                    }
                }
                out.push_str("</g>\n");
            }
            Item::Args { j, n, form } => {
                let a = "randint(0, 999999)";
                let e = match (form, n) {
                    (0, _) => format!("if(1, {a}, {a})"),
                    (1, _) => format!("if(0, {a}, {a})"),
                    (2, _) => format!("select(0, {a}, {a}, {a})"),
                    (3, _) => format!("and(0, {a})"),
                    (4, _) => format!("or(1, {a})"),
                    (5, _) => format!("head({a}, {a})"),
                    (6, _) => format!("min({a}, {a}, {a})"),
                    (7, _) => format!("if(1, 5, {a})"),
                    (8, _) => format!("count({a}, {a})"),
                    _ => format!("0 * {a} + mix({a}, {a}, 0.5)"),
                };
                out.push_str(&format!("<rect xy=\"0 {j}\" wh=\"2\" data-z=\"{{{{{e}}}}}\"/>\n"));
            }
            Item::Defaults => out.push_str("<defaults><rect rx=\"1\"/><circle class=\"dc\"/><_ match=\"text line\" class=\"dd\"/></defaults>\n"),
            Item::Plain => out.push_str("<rect xy=\"5 5\" wh=\"1\"/>\n"),
        }
    }
}

pub fn render(scn: &Scn) -> String {
    if let Some(d) = &scn.doc {
        return d.clone();
    }
    let mut s = String::from("<svg>\n");
    if !scn.templates.is_empty() {
        s.push_str("<specs>\n");
        for (i, t) in scn.templates.iter().enumerate() {
            s.push_str(&format!("<g id=\"t{i}\"><text xy=\"0 0\" text=\"${{m}}_$k\"/>\n"));
            render_items(t, true, &mut s);
            s.push_str("</g>\n");
        }
        s.push_str("</specs>\n");
    }
    render_items(&scn.items, false, &mut s);
    s.push_str("</svg>\n");
    s
}

/// expected observations: (marker, value string) in output order, plus counted classes
#[derive(Clone, Debug)]
enum Trace {
    Int(i32, i32),
    Float,
    Reseed(u64),
}

/// The reference stream is svgdx's own: the k-th draw of a run is whatever a FLAT
/// calibration document - one plain element per draw, in the same order, with the same
/// reseeds - prints for its k-th element. That keeps the oracle to what the statement fixes
/// (once per occurrence per rendered element, in document order) and independent of which
/// PRNG algorithm svgdx uses; the Pcg32 stream is stepped alongside as a diagnostic only.
struct Model<'a> {
    rng: Pcg32,
    trace: Vec<Trace>,
    cfg: Cfg,
    /// calibration failed (svgdx rejected the flat document): scenario is skipped
    broken: bool,
    /// the other reading of a group attribute which holds an occurrence: evaluated once, for
    /// the group, and every reader sees that value (instead of once more per reader)
    eager_groups: bool,
    /// draws where svgdx's stream and the Pcg32 reference disagree
    pcg_mismatch: u64,
    draws: u64,
    templates: &'a [Vec<Item>],
    /// marker -> values in order
    obs: Vec<(String, String)>,
    /// class marker -> expected element count
    counts: Vec<(String, u64)>,
}

/// Values svgdx prints for a flat document with one plain element per draw of `trace`
/// (None for the whole call when svgdx rejects the document).
fn calibrate_trace(trace: &[Trace], cfg: &Cfg) -> Option<Vec<Option<String>>> {
    let mut doc = String::from("<svg>\n");
    for (i, t) in trace.iter().enumerate() {
        match t {
            Trace::Int(lo, hi) => doc.push_str(&format!("<rect wh=\"1\" data-c=\"c{i}_{{{{randint({lo}, {hi})}}}}\"/>\n")),
            Trace::Float => doc.push_str(&format!("<rect wh=\"1\" data-c=\"c{i}_{{{{random()}}}}\"/>\n")),
            Trace::Reseed(s) => doc.push_str(&format!("<config seed=\"{s}\"/>\n")),
        }
    }
    doc.push_str("</svg>\n");
    let (out, _) = fe_stream_plain(doc.as_bytes(), cfg);
    let bytes = match out {
        Outcome::Ok(b) => b,
        _ => return None,
    };
    let text = String::from_utf8_lossy(&bytes).into_owned();
    let mut vals = Vec::new();
    for (i, t) in trace.iter().enumerate() {
        if matches!(t, Trace::Reseed(_)) {
            continue;
        }
        let key = format!("\"c{i}_");
        let v = text.find(&key).map(|p| {
            text[p + key.len()..]
                .chars()
                .take_while(|c| c.is_ascii_digit() || *c == '.' || *c == '-')
                .collect::<String>()
        });
        vals.push(v.filter(|v| !v.is_empty()));
    }
    Some(vals)
}

impl<'a> Model<'a> {
    fn calibrate(&mut self) -> Option<String> {
        let mut cfg = self.cfg.clone();
        cfg.debug = false; // debug output echoes the source, placeholders included
        calibrate_trace(&self.trace, &cfg)?.pop()?
    }
    fn draw_int(&mut self, lo: i32, hi: i32) -> i32 {
        self.draws += 1;
        self.trace.push(Trace::Int(lo, hi));
        let reference = self.rng.random_range(lo..=hi);
        match self.calibrate().and_then(|v| v.parse::<i32>().ok()) {
            Some(v) => {
                if v != reference {
                    self.pcg_mismatch += 1;
                }
                v
            }
            None => {
                self.broken = true;
                reference
            }
        }
    }
    fn draw_float(&mut self) -> String {
        self.draws += 1;
        self.trace.push(Trace::Float);
        let reference = fstr(self.rng.random::<f32>());
        match self.calibrate() {
            Some(v) => {
                if v != reference {
                    self.pcg_mismatch += 1;
                }
                v
            }
            None => {
                self.broken = true;
                reference
            }
        }
    }
    fn beacon(&mut self, lo: i32) -> i32 {
        self.draw_int(lo, 999999)
    }
    fn exec(&mut self, items: &[Item], tmark: Option<&str>) {
        for it in items {
            match it {
                Item::Beacon { j, site } => {
                    let lo = if site == "circle-r" { 1 } else { 0 };
                    let v = if site == "eq-bounds" {
                        self.draw_int(7, 7)
                    } else {
                        self.beacon(lo)
                    };
                    let key = match (tmark, site.as_str()) {
                        (Some(m), "x" | "xy" | "wh" | "circle-r" | "line-x2" | "points") => format!("#{m}e{j}"),
                        (None, "x" | "xy" | "wh" | "circle-r" | "line-x2" | "points") => format!("#e{j}"),
                        (Some(m), _) => format!("{m}t{j}_"),
                        (None, _) => format!("b{j}_"),
                    };
                    self.obs.push((format!("{key}|{site}"), v.to_string()));
                }
                Item::RandomF { j } => {
                    let v = self.draw_float();
                    let key = match tmark {
                        Some(m) => format!("{m}t{j}_"),
                        None => format!("b{j}_"),
                    };
                    self.obs.push((format!("{key}|text"), v));
                }
                Item::ReuseLeaf { j, kind, n } => {
                    // nothing is drawn where the template is defined; every instance draws once
                    for _ in 0..*n {
                        if *kind == 0 {
                            let v = self.beacon(0);
                            self.obs.push((format!("lf{j}_|data"), v.to_string()));
                        } else {
                            let v = self.beacon(1);
                            self.obs.push((format!("%lf{j}|leaf-wh"), format!("{v}/{v}")));
                        }
                    }
                }
                Item::GroupLazy { j, reads, .. } => {
                    let v = self.beacon(0);
                    self.obs.push((format!("lz{j}=\"|data"), v.to_string()));
                    for r in 0..*reads {
                        let v = if self.eager_groups { v } else { self.beacon(0) };
                        self.obs.push((format!("b{j}r{r}_|data"), v.to_string()));
                    }
                }
                Item::Args { n, .. } => {
                    for _ in 0..*n {
                        self.beacon(0);
                    }
                }
                Item::TwoBlocks { j, .. } => {
                    let key = match tmark {
                        Some(m) => format!("{m}t{j}"),
                        None => format!("b{j}"),
                    };
                    let a = self.beacon(0);
                    let b = self.beacon(0);
                    // (the order of the two within one value is not asserted)
                    let (lo, hi) = (a.min(b), a.max(b));
                    self.obs.push((format!("{key}|pair"), format!("{lo},{hi}")));
                }
                Item::Reseed { seed } => {
                    self.trace.push(Trace::Reseed(*seed));
                    self.rng = Pcg32::seed_from_u64(*seed);
                }
                Item::Loop { j, random_count, count, body } => {
                    let c = if *random_count {
                        self.draw_int(1, 3) as u32
                    } else {
                        *count
                    };
                    self.add_count(&format!("l{j}"), c as u64);
                    for _ in 0..c {
                        self.exec(body, tmark);
                    }
                }
                Item::If { j, random_test, test, body } => {
                    let t = if *random_test {
                        self.draw_int(0, 1) != 0
                    } else {
                        *test
                    };
                    self.add_count(&format!("i{j}"), t as u64);
                    if t {
                        self.exec(body, tmark);
                    }
                }
                Item::Group { j, attr_beacon, body } => {
                    if *attr_beacon {
                        let v = self.beacon(0);
                        self.obs.push((format!("b{j}_|gattr"), v.to_string()));
                    }
                    self.exec(body, tmark);
                }
                Item::Reuse { j, t, attr_beacon } => {
                    let k = if *attr_beacon { self.beacon(0) } else { 0 };
                    let m = format!("b{j}");
                    self.obs.push((format!("{m}_|reuse-attr"), k.to_string()));
                    let body = self.templates[*t].clone();
                    self.exec(&body, Some(&m));
                }
                Item::LoopVar { j, count, random_start, random_step, start, step, body } => {
                    let st = if *random_start {
                        self.draw_int(0, 5)
                    } else {
                        *start
                    };
                    let sp = if *random_step {
                        self.draw_int(1, 3)
                    } else {
                        *step
                    };
                    self.add_count(&format!("l{j}"), *count as u64);
                    for k in 0..*count {
                        self.obs.push((format!("v{j}_|loop-var"), (st + k as i32 * sp).to_string()));
                        self.exec(body, tmark);
                    }
                }
                Item::Until { j, body } => {
                    let mut passes = 0;
                    loop {
                        passes += 1;
                        self.exec(body, tmark);
                        if self.draw_int(0, 1) != 0 || passes > 900 || self.broken {
                            break;
                        }
                    }
                    self.add_count(&format!("l{j}"), passes);
                }
                Item::Defaults | Item::Plain => {}
            }
        }
    }
    fn add_count(&mut self, k: &str, n: u64) {
        if let Some(e) = self.counts.iter_mut().find(|(kk, _)| kk == k) {
            e.1 += n;
        } else {
            self.counts.push((k.to_string(), n));
        }
    }
}

/// observed value for a key in the output: id-keys read a geometry attribute, marker keys
/// read the digits following the marker; all occurrences in output order
fn observe(out: &str, tree: &[Node], key: &str, site: &str) -> Vec<String> {
    if site == "pair" {
        // one observation per rendering: both values of the element, order-free
        let a = observe(out, tree, &format!("{key}a_"), "data");
        let b = observe(out, tree, &format!("{key}b_"), "data");
        return a
            .iter()
            .zip(b.iter())
            .map(|(x, y)| {
                let (x, y): (i64, i64) = (x.parse().unwrap_or(-1), y.parse().unwrap_or(-1));
                format!("{},{}", x.min(y), x.max(y))
            })
            .chain((a.len().min(b.len())..a.len().max(b.len())).map(|_| "<unpaired>".to_string()))
            .collect();
    }
    if let Some(class) = key.strip_prefix('%') {
        // instances of a leaf template carry the template's id as a class
        let mut all = Vec::new();
        xmltree::walk(tree, &mut all);
        return all
            .iter()
            .filter(|e| e.attr("class").map(|c| c.split_whitespace().any(|x| x == class)).unwrap_or(false))
            .map(|e| format!("{}/{}", e.attr("width").unwrap_or("<missing>"), e.attr("height").unwrap_or("<missing>")))
            .collect();
    }
    if let Some(id) = key.strip_prefix('#') {
        let mut all = Vec::new();
        xmltree::walk(tree, &mut all);
        let mut v = Vec::new();
        for e in all {
            if e.attr("id") == Some(id) {
                let val = match site {
                    "x" | "xy" => e.attr("x").map(|s| s.to_string()),
                    "wh" => e.attr("width").map(|s| s.to_string()),
                    "circle-r" => e.attr("r").map(|s| s.to_string()),
                    "line-x2" => e.attr("x2").map(|s| s.to_string()),
                    "points" => e
                        .attr("points")
                        .and_then(|p| p.split(|c: char| c == ' ' || c == ',').filter(|t| !t.is_empty()).nth(2).map(|s| s.to_string())),
                    _ => None,
                };
                v.push(val.unwrap_or_else(|| "<missing>".into()));
            }
        }
        return v;
    }
    let mut v = Vec::new();
    let mut rest = out;
    while let Some(p) = rest.find(key) {
        let after = &rest[p + key.len()..];
        let val: String = after.chars().take_while(|c| c.is_ascii_digit() || *c == '.' || *c == '-').collect();
        // (with debug on, the source of the element is echoed in a comment: the marker
        // followed by the unevaluated expression is not an observation)
        if !val.is_empty() {
            v.push(val);
        }
        rest = after;
    }
    v
}

fn gen_items(w: &mut Rng, j: &mut u32, depth: usize, n_templates: usize, in_template: bool) -> Vec<Item> {
    let mut v = Vec::new();
    let n = 1 + w.usize(if depth == 0 { 7 } else { 3 });
    for _ in 0..n {
        *j += 1;
        let jj = *j;
        match w.below(19) {
            0..=6 => v.push(Item::Beacon {
                j: jj,
                site: w.pick(SITES).to_string(),
            }),
            7 if w.chance(1, 2) => v.push(Item::RandomF { j: jj }),
            7 if w.chance(1, 2) => v.push(Item::TwoBlocks { j: jj, site: w.below(4) as u8 }),
            7 if !in_template && w.chance(1, 2) => v.push(Item::GroupLazy { j: jj, reads: 1 + w.below(2) as u8, in_id: w.chance(1, 2) }),
            7 => {
                let form = w.below(10) as u8;
                let n = match form {
                    0 | 1 | 5 | 8 => 2,
                    2 | 6 | 9 => 3,
                    _ => 1,
                };
                v.push(Item::Args { j: jj, n, form })
            }
            17 if depth == 0 && !in_template => v.push(Item::ReuseLeaf {
                j: jj,
                kind: w.below(2) as u8,
                n: 1 + w.below(3) as u8,
            }),
            8 if depth == 0 && !in_template => {
                // half of the reseeds repeat a seed already in force (the API seed or an
                // earlier <config seed>): the stream must restart all the same
                let s = if w.chance(1, 2) { u64::MAX } else { w.below(100000) };
                v.push(Item::Reseed { seed: s })
            }
            9 if depth < 2 => {
                let body = gen_items(w, j, depth + 1, n_templates, in_template);
                v.push(Item::Loop {
                    j: jj,
                    random_count: w.chance(1, 2),
                    count: 1 + w.below(3) as u32,
                    body,
                });
            }
            10 if depth < 2 => {
                let body = gen_items(w, j, depth + 1, n_templates, in_template);
                v.push(Item::If {
                    j: jj,
                    random_test: w.chance(1, 2),
                    test: w.chance(2, 3),
                    body,
                });
            }
            11 if depth < 2 => {
                let body = gen_items(w, j, depth + 1, n_templates, in_template);
                v.push(Item::Group {
                    j: jj,
                    attr_beacon: w.chance(1, 2),
                    body,
                });
            }
            14 if depth < 2 => {
                let body = gen_items(w, j, depth + 1, n_templates, in_template);
                v.push(Item::LoopVar {
                    j: jj,
                    count: 1 + w.below(3) as u32,
                    random_start: w.chance(1, 2),
                    random_step: w.chance(1, 2),
                    start: w.range(0, 5) as i32,
                    step: w.range(1, 3) as i32,
                    body,
                });
            }
            15 if depth < 2 => {
                let body = gen_items(w, j, depth + 1, n_templates, in_template);
                v.push(Item::Until { j: jj, body });
            }
            16 if depth == 0 && !in_template => v.push(Item::Defaults),
            12 | 13 if n_templates > 0 && !in_template => v.push(Item::Reuse {
                j: jj,
                t: w.usize(n_templates),
                attr_beacon: w.chance(2, 3),
            }),
            _ => v.push(Item::Plain),
        }
    }
    v
}

const MALFORMED: &[(&str, &str)] = &[
    ("unbalanced-open", "{{(1 + 2}}"),
    ("unbalanced-close", "{{1 + 2)}}"),
    ("unknown-function", "{{foo(1)}}"),
    ("arity-too-few", "{{sin()}}"),
    ("arity-too-many", "{{sin(1, 2)}}"),
    ("arity-randint", "{{randint(1)}}"),
    ("arity-random", "{{random(5)}}"),
    ("arity-pow", "{{pow(2)}}"),
    ("arity-if", "{{if(1, 2)}}"),
    ("undefined-variable", "{{$nope + 1}}"),
    ("circular-variable", "{{$ca}}"),
    // the malformed part sits in an argument a lazy implementation might never look at
    ("unknown-function-in-untaken-branch", "{{if(1, 5, nosuch(3))}}"),
    ("arity-in-untaken-branch", "{{if(0, sin(), 7)}}"),
    ("undefined-variable-in-untaken-branch", "{{if(1, 2, $nope)}}"),
    ("unknown-function-after-short-circuit", "{{and(0, nosuch(1))}}"),
    // a cycle among a group's own attributes while the same names also exist outside it
    ("circular-group-locals", "{{$cga}}"),
];

fn malformed_site(site: &str, e: &str) -> String {
    // loop control attributes are expression contexts of their own: no braces needed
    let bare = e.trim_start_matches("{{").trim_end_matches("}}");
    match site {
        // the expression sits at the end of a very long attribute value
        "data-huge" => format!("<rect wh=\"1\" data-k=\"{}{e}\"/>", "x".repeat(70_000)),
        "text-huge" => format!("<rect wh=\"1\" text=\"{e}{}\"/>", " y".repeat(40_000)),
        "for-data" => format!("<for data=\"{e}\" var=\"fv\"><rect wh=\"1\" text=\"$fv\"/></for>"),
        "for-data-bare" => format!("<for data=\"1, {bare}\" var=\"fv\"><rect wh=\"1\" text=\"$fv\"/></for>"),
        "if-test-bare" => format!("<if test=\"{bare}\"><rect wh=\"1\"/></if>"),
        "loop-while" => format!("<loop while=\"{bare}\"><rect wh=\"1\"/></loop>"),
        "loop-until" => format!("<loop until=\"{bare}\"><rect wh=\"1\"/></loop>"),
        "loop-start" => format!("<loop count=\"2\" loop-var=\"lv\" start=\"{e}\"><rect wh=\"1\" text=\"$lv\"/></loop>"),
        "loop-step" => format!("<loop count=\"2\" loop-var=\"lv\" step=\"{e}\"><rect wh=\"1\" text=\"$lv\"/></loop>"),
        "x" => format!("<rect x=\"{e}\" y=\"0\" wh=\"1\"/>"),
        "text" => format!("<rect wh=\"1\" text=\"{e}\"/>"),
        "textel" => format!("<text xy=\"0 0\">{e}</text>"),
        "data" => format!("<rect wh=\"1\" data-k=\"{e}\"/>"),
        "comment" => format!("<rect wh=\"1\" _=\"{e}\"/>"),
        "var" => format!("<var v=\"{e}\"/>"),
        "loop-count" => format!("<loop count=\"{e}\"><rect wh=\"1\"/></loop>"),
        "if-test" => format!("<if test=\"{e}\"><rect wh=\"1\"/></if>"),
        "g-attr" => format!("<g data-k=\"{e}\"><rect wh=\"1\"/></g>"),
        "in-group" => format!("<g><rect wh=\"1\"/><rect x=\"{e}\" wh=\"1\"/></g>"),
        "in-loop" => format!("<loop count=\"2\"><rect x=\"{e}\" wh=\"1\"/></loop>"),
        "reuse-attr" => format!("<specs><rect id=\"tm\" wh=\"$k\"/></specs><reuse href=\"#tm\" k=\"{e}\"/>"),
        "template" => format!("<specs><g id=\"tm\"><rect wh=\"1\" data-k=\"{e}\"/></g></specs><reuse href=\"#tm\"/>"),
        "points" => format!("<polyline points=\"0 0 {e} 5\"/>"),
        "style" => format!("<rect wh=\"1\" style=\"opacity:{e}\"/>"),
        "nested-var-use" => format!("<var q=\"{e}\"/><rect wh=\"1\" text=\"$q\"/>"),
        _ => format!("<rect wh=\"{e}\"/>"),
    }
}

const MALFORMED_SITES: &[&str] = &[
    "x", "text", "textel", "data", "comment", "var", "loop-count", "if-test", "g-attr", "in-group", "in-loop", "reuse-attr",
    "template", "points", "style", "wh", "data-huge", "text-huge", "for-data", "for-data-bare", "if-test-bare", "loop-while", "loop-until", "loop-start", "loop-step",
];

impl Engine for C14 {
    fn id(&self) -> &'static str {
        "C14"
    }
    fn runs(&self, tier: Tier) -> u64 {
        match tier {
            Tier::Quick => 4000,
            Tier::Thorough => 200000,
        }
    }

    fn generate(&self, seed: u64, index: u64, _tier: Tier, _env: &WorkerEnv) -> Value {
        let rs = rng::run_seed(seed, "C14", index);
        let mut w = Rng::sub(rs, "workload");
        if index % 3 == 2 {
            // malformed family
            let (kind, expr) = *w.pick(MALFORMED);
            let site = *w.pick(MALFORMED_SITES);
            let neighbour = *w.pick(&["alone", "fwd-sibling", "fwd-sibling-before", "inside-retried-group", "after-retried-group", "before-long-chain", "after-long-chain"]);
            let mal = malformed_site(site, expr);
            let pre = if kind == "circular-variable" { "<var ca=\"$cb\"/><var cb=\"$ca\"/>" } else { "" };
            // (the group is put around the whole body below)
            let group_cycle = kind == "circular-group-locals";
            let body = match neighbour {
                "alone" => mal,
                "fwd-sibling" => format!("{mal}<rect xy=\"#later|h\" wh=\"1\"/><rect id=\"later\" wh=\"2\"/>"),
                "fwd-sibling-before" => format!("<rect xy=\"#later|h\" wh=\"1\"/>{mal}<rect id=\"later\" wh=\"2\"/>"),
                "inside-retried-group" => format!("<g><rect xy=\"#later|v\" wh=\"1\"/>{mal}</g><rect id=\"later\" wh=\"2\"/>"),
                // a sibling list which needs well over a hundred retry passes
                "before-long-chain" | "after-long-chain" => {
                    let n = 110 + w.below(60);
                    let mut chain = String::new();
                    for i in 0..n {
                        chain.push_str(&format!("<rect id=\"lc{i}\" xy=\"#lc{}|h\" wh=\"1\"/>", i + 1));
                    }
                    chain.push_str(&format!("<rect id=\"lc{n}\" xy=\"0 0\" wh=\"1\"/>"));
                    if neighbour == "before-long-chain" {
                        format!("{mal}{chain}")
                    } else {
                        format!("{chain}{mal}")
                    }
                }
                _ => format!("<g><rect xy=\"#later|v\" wh=\"1\"/></g>{mal}<rect id=\"later\" wh=\"2\"/>"),
            };
            let scn = Scn {
                mode: "malformed".into(),
                seed: w.below(1000),
                templates: vec![],
                items: vec![],
                doc: Some(if group_cycle {
                    format!("<svg><var cga=\"1\" cgb=\"2\"/><g cga=\"$cgb\" cgb=\"$cga\">{body}</g></svg>")
                } else {
                    format!("<svg>{pre}{body}</svg>")
                }),
                label: format!("{kind}:{site}:{neighbour}"),
                cfg: None,
            };
            return serde_json::to_value(scn).unwrap();
        }
        let n_templates = w.usize(3);
        let mut j = 0;
        let mut templates = Vec::new();
        for _ in 0..n_templates {
            templates.push(gen_items(&mut w, &mut j, 1, 0, true));
        }
        let mut items = gen_items(&mut w, &mut j, 0, n_templates, false);
        let api_seed = if w.chance(1, 3) { 0 } else { w.below(1_000_000) };
        let mut in_force = api_seed;
        for it in items.iter_mut() {
            if let Item::Reseed { seed } = it {
                if *seed == u64::MAX {
                    *seed = in_force;
                }
                in_force = *seed;
            }
        }
        let scn = Scn {
            mode: "once".into(),
            seed: api_seed,
            templates,
            items,
            doc: None,
            label: String::new(),
            cfg: if index % 4 == 1 {
                let mut c = Cfg::default();
                c.use_local_styles = w.chance(1, 2);
                c.debug = w.chance(1, 3);
                c.add_metadata = w.chance(1, 3);
                c.theme = w.pick(crate::docgen::THEMES).to_string();
                c.scale = 2.0;
                c.border = w.below(9) as u16;
                Some(c)
            } else {
                None
            },
        };
        serde_json::to_value(scn).unwrap()
    }

    fn execute(&self, scenario: &Value, _env: &WorkerEnv) -> RunResult {
        let mut res = RunResult::default();
        let scn: Scn = match serde_json::from_value(scenario.clone()) {
            Ok(s) => s,
            Err(e) => {
                res.harness_error = Some(format!("bad scenario: {e}"));
                return res;
            }
        };
        let mut cfg = scn.cfg.clone().unwrap_or_default();
        cfg.add_auto_styles = false;
        cfg.seed = scn.seed;
        let doc = render(&scn);
        let (d2, c2) = (doc.clone(), cfg.clone());
        let r = on_thread(STACK_MAIN, move || fe_stream_plain(d2.as_bytes(), &c2));
        let (out, probe) = match r {
            Ok(v) => v,
            Err(e) => {
                res.harness_error = Some(e);
                return res;
            }
        };
        res.stats.evaluations = 1;
        res.stats.outcome(out.class());
        res.stats.fingerprint = rng::hash_str(&doc);
        if let Some(p) = &probe {
            res.stats.steps += p.attempts;
            res.stats.probe_n("rng_draws", p.rng_calls);
            res.stats.probe_n("failed_attempts", p.failed_attempts);
        }
        if scn.mode == "malformed" {
            res.stats.nontrivial = probe.as_ref().map(|p| p.failed_attempts > 0).unwrap_or(false);
            match &out {
                Outcome::Ok(b) => {
                    let mut parts = scn.label.split(':');
                    let kind = parts.next().unwrap_or("?");
                    let site = parts.next().unwrap_or("?");
                    res.violation(
                        "expressions/malformed-accepted",
                        &format!("c14:malformed-accepted:{kind}:{site}"),
                        format!("malformed expression ({}) did not fail the transform; document: {}; output: {}", scn.label, doc, shorten(&String::from_utf8_lossy(b), 400)),
                    );
                }
                Outcome::Panic(p) => res.violation("totality/panic", "c14:panic", format!("{p}; document: {doc}")),
                _ => {}
            }
            return res;
        }
        // ---- exactly-once
        let mut m = Model {
            rng: Pcg32::seed_from_u64(scn.seed),
            trace: Vec::new(),
            cfg: cfg.clone(),
            broken: false,
            eager_groups: false,
            pcg_mismatch: 0,
            draws: 0,
            templates: &scn.templates,
            obs: Vec::new(),
            counts: Vec::new(),
        };
        m.exec(&scn.items, None);
        res.stats.nontrivial = m.draws >= 2;
        res.stats.evaluations += m.draws; // calibration transforms
        if m.broken {
            res.stats.probe("calibration_document_rejected");
            return res;
        }
        // Two checks on the stream itself, neither of which names a PRNG algorithm:
        // (a) the position after k occurrences depends on the seed and on k only, so the
        //     flat document prints the same values under the scenario's configuration and
        //     under the default one (nothing but an occurrence advances the stream);
        // (b) an occurrence with equal bounds is an occurrence: taking it out of the flat
        //     document must change what the two draws after it print.
        {
            let mut plain = Cfg::default();
            plain.seed = cfg.seed;
            plain.add_auto_styles = false;
            let mut own = cfg.clone();
            own.debug = false;
            let here = calibrate_trace(&m.trace, &own);
            if own != plain && m.draws > 0 {
                let there = calibrate_trace(&m.trace, &plain);
                res.stats.probe("stream_compared_across_configurations");
                if here.is_some() && there.is_some() && here != there {
                    res.violation(
                        "exactly-once/stream-position",
                        "c14:stream-depends-on-configuration",
                        format!(
                            "the same {} random occurrences under seed {} print {:?} with configuration {:?} and {:?} with the default configuration: something other than an occurrence advanced the stream",
                            m.draws, cfg.seed, here, own, there
                        ),
                    );
                }
            }
            // (c) the position is a function of the seed in force and of the occurrences
            //     evaluated since it was put in force: what follows <config seed="S"/> is
            //     what a document transformed with seed S prints from its start.
            for i in 0..m.trace.len() {
                let Trace::Reseed(s) = m.trace[i] else { continue };
                let tail: Vec<Trace> = m.trace[i + 1..].iter().take_while(|t| !matches!(t, Trace::Reseed(_))).cloned().collect();
                if tail.is_empty() {
                    continue;
                }
                let pos = m.trace[..i].iter().filter(|t| !matches!(t, Trace::Reseed(_))).count();
                let mut fresh = own.clone();
                fresh.seed = s;
                if let (Some(h), Some(f)) = (&here, calibrate_trace(&tail, &fresh)) {
                    res.stats.probe("reseed_restart_checked");
                    if h.len() >= pos + f.len() && h[pos..pos + f.len()] != f[..] {
                        res.violation(
                            "exactly-once/stream-position",
                            "c14:reseed-does-not-restart",
                            format!(
                                "flat document under seed {}: the {} occurrences after <config seed=\"{s}\"/> print {:?}, a document transformed with seed {s} prints {:?} from its start",
                                cfg.seed,
                                f.len(),
                                &h[pos..pos + f.len()],
                                f
                            ),
                        );
                        break;
                    }
                }
            }
            for i in 0..m.trace.len() {
                let eq = matches!(m.trace[i], Trace::Int(lo, hi) if lo == hi);
                let after = m.trace[i + 1..]
                    .iter()
                    .take_while(|t| !matches!(t, Trace::Reseed(_)))
                    .filter(|t| matches!(t, Trace::Int(lo, hi) if hi - lo >= 1000) || matches!(t, Trace::Float))
                    .count();
                if !eq || after < 2 {
                    continue;
                }
                let mut without = m.trace.clone();
                without.remove(i);
                let pos = m.trace[..i].iter().filter(|t| !matches!(t, Trace::Reseed(_))).count();
                if let (Some(h), Some(w)) = (&here, calibrate_trace(&without, &own)) {
                    res.stats.probe("equal_bounds_advance_checked");
                    // h[pos] is the equal-bounds value; h[pos+1..] must not be w[pos..]
                    let n = h.len().min(w.len() + 1);
                    if n > pos + 2 && h[pos + 1..n] == w[pos..n - 1] {
                        res.violation(
                            "exactly-once/stream-position",
                            "c14:no-advance:eq-bounds",
                            format!(
                                "flat document of {} random occurrences under seed {}: removing occurrence #{pos} (randint with equal bounds) leaves every later value unchanged ({:?}), so that occurrence did not advance the stream",
                                m.draws, cfg.seed, &h[pos + 1..n]
                            ),
                        );
                    }
                }
                break;
            }
        }
        if m.pcg_mismatch > 0 {
            res.stats.probe("stream_differs_from_pcg32_reference");
        } else if m.draws > 0 {
            res.stats.probe("stream_equals_pcg32_reference");
        }
        match &out {
            Outcome::Ok(b) => {
                let s = String::from_utf8_lossy(b).into_owned();
                let tree = xmltree::parse(&s).unwrap_or_default();
                // group expected observations per key (in order)
                let mut keys: Vec<String> = Vec::new();
                for (k, _) in &m.obs {
                    if !keys.contains(k) {
                        keys.push(k.clone());
                    }
                }
                // The statement can be read two ways for an occurrence held by a GROUP attribute
                // that children read as a variable: once per reader (what svgdx does: the
                // attribute is a variable holding the expression text) or once, for the group.
                // Either is accepted, consistently for the whole document.
                let matches_model = |mm: &Model| -> bool {
                    let mut ks: Vec<&String> = Vec::new();
                    for (k, _) in &mm.obs {
                        if !ks.contains(&k) {
                            ks.push(k);
                        }
                    }
                    ks.iter().all(|k| {
                        let (key, site) = k.split_once('|').unwrap();
                        let want: Vec<&String> = mm.obs.iter().filter(|(kk, _)| kk == *k).map(|(_, v)| v).collect();
                        let got = observe(&s, &tree, key, site);
                        got.len() == want.len() && got.iter().zip(want.iter()).all(|(g, w)| g == *w)
                    })
                };
                let has_group_lazy = serde_json::to_string(&scn.items).map(|t| t.contains("GroupLazy")).unwrap_or(false);
                let mut eager_ok = false;
                if has_group_lazy && !matches_model(&m) {
                    let mut m2 = Model {
                        rng: Pcg32::seed_from_u64(scn.seed),
                        trace: Vec::new(),
                        cfg: cfg.clone(),
                        broken: false,
                        eager_groups: true,
                        pcg_mismatch: 0,
                        draws: 0,
                        templates: &scn.templates,
                        obs: Vec::new(),
                        counts: Vec::new(),
                    };
                    m2.exec(&scn.items, None);
                    eager_ok = !m2.broken && matches_model(&m2);
                    if eager_ok {
                        res.stats.probe("group_attribute_occurrence_evaluated_once_for_the_group");
                    }
                }
                'keys: for k in &keys {
                    if eager_ok {
                        break;
                    }
                    let (key, site) = k.split_once('|').unwrap();
                    let want: Vec<&String> = m.obs.iter().filter(|(kk, _)| kk == k).map(|(_, v)| v).collect();
                    let got = observe(&s, &tree, key, site);
                    // a marker may legitimately be echoed more than once per rendering (e.g.
                    // data-src); demand that the expected sequence is what the output shows
                    let ok = got.len() == want.len() && got.iter().zip(want.iter()).all(|(g, w)| g == *w);
                    if !ok {
                        res.violation(
                            "exactly-once/stream-position",
                            &format!("c14:exactly-once:{site}"),
                            format!(
                                "occurrence {key} at site '{site}': output shows {got:?}, the reference stream (svgdx's own flat calibration document for seed {}: one step per occurrence per rendered element) gives {want:?}; document:\n{}",
                                scn.seed,
                                shorten(&doc, 1500)
                            ),
                        );
                        break 'keys;
                    }
                }
                if let Some(p) = &probe {
                    // diagnostic only: draws that were rolled back (specs definitions, failed
                    // attempts) are counted by the hook but are not observable
                    if p.rng_calls != m.draws {
                        res.stats.probe("hook_draw_count_differs_from_model");
                    } else {
                        res.stats.probe("hook_draw_count_equals_model");
                    }
                }
            }
            Outcome::Err(e) => {
                res.violation(
                    "exactly-once/program-rejected",
                    "c14:rejected",
                    format!("well-formed document rejected: {}; document:\n{}", shorten(e, 300), shorten(&doc, 1500)),
                );
            }
            Outcome::Panic(p) => res.violation("totality/panic", "c14:panic", format!("{p}")),
            Outcome::Budget => {}
        }
        res
    }

    fn shrink(&self, scenario: &Value) -> Vec<Value> {
        let scn: Scn = match serde_json::from_value(scenario.clone()) {
            Ok(s) => s,
            Err(_) => return vec![],
        };
        let mut out: Vec<Scn> = Vec::new();
        if scn.mode == "malformed" {
            if let Some(d) = &scn.doc {
                for c in xmltree::shrink_candidates(d.as_bytes()).into_iter().take(80) {
                    if let Ok(doc) = String::from_utf8(c) {
                        // keep it a malformed-expression document
                        if MALFORMED.iter().any(|(_, e)| doc.contains(e)) {
                            let mut s = scn.clone();
                            s.doc = Some(doc);
                            out.push(s);
                        }
                    }
                }
            }
            return out.into_iter().map(|s| serde_json::to_value(s).unwrap()).collect();
        }
        fn variants(b: &[Item]) -> Vec<Vec<Item>> {
            let mut v = Vec::new();
            for i in 0..b.len() {
                let mut c = b.to_vec();
                c.remove(i);
                v.push(c);
            }
            for i in 0..b.len() {
                match &b[i] {
                    Item::Loop { j, random_count, count, body } => {
                        for nb in variants(body) {
                            let mut c = b.to_vec();
                            c[i] = Item::Loop {
                                j: *j,
                                random_count: *random_count,
                                count: *count,
                                body: nb,
                            };
                            v.push(c);
                        }
                        if *random_count || *count > 1 {
                            let mut c = b.to_vec();
                            c[i] = Item::Loop {
                                j: *j,
                                random_count: false,
                                count: 1,
                                body: body.clone(),
                            };
                            v.push(c);
                        }
                    }
                    Item::If { j, random_test, test, body } => {
                        for nb in variants(body) {
                            let mut c = b.to_vec();
                            c[i] = Item::If {
                                j: *j,
                                random_test: *random_test,
                                test: *test,
                                body: nb,
                            };
                            v.push(c);
                        }
                        if *random_test {
                            let mut c = b.to_vec();
                            c[i] = Item::If {
                                j: *j,
                                random_test: false,
                                test: true,
                                body: body.clone(),
                            };
                            v.push(c);
                        }
                    }
                    Item::Group { j, attr_beacon, body } => {
                        for nb in variants(body) {
                            let mut c = b.to_vec();
                            c[i] = Item::Group {
                                j: *j,
                                attr_beacon: *attr_beacon,
                                body: nb,
                            };
                            v.push(c);
                        }
                        let mut c = b.to_vec();
                        c.splice(i..i + 1, body.clone());
                        v.push(c);
                    }
                    _ => {}
                }
            }
            v
        }
        for nb in variants(&scn.items) {
            let mut s = scn.clone();
            s.items = nb;
            out.push(s);
        }
        for ti in 0..scn.templates.len() {
            for nb in variants(&scn.templates[ti]) {
                let mut s = scn.clone();
                s.templates[ti] = nb;
                out.push(s);
            }
        }
        if scn.seed != 0 {
            let mut s = scn.clone();
            s.seed = 0;
            out.push(s);
        }
        out.into_iter().map(|s| serde_json::to_value(s).unwrap()).collect()
    }

    fn rule(&self) -> &'static str {
        "two families. once: a forward-reference-free document with randint(0,999999) beacons / random() at 14 attribute sites, in loops (fixed or random count), ifs (fixed or random test), groups, reuse attributes and template bodies, API seed and <config seed> reseeding; every printed value must equal what svgdx prints for the same ordered draws in a flat calibration document (one plain element per occurrence per rendering; no PRNG algorithm assumed); on that stream: same values under any non-seed configuration, randint(n,n) advances, <config seed=S> restarts as a document with seed S. malformed: 11 malformed-expression kinds x 23 sites (loop control included) x 5 neighbourhoods (alone / next to / inside / after elements needing a retry) must fail. distinct by document; non-trivial = >= 2 draws (once) or a retry happened (malformed)"
    }
    fn components_real(&self) -> Vec<&'static str> {
        vec!["svgdx library (transform_stream): element pipeline, expression evaluator, document PRNG, retry work-list", "rand_pcg (diagnostic probe only)"]
    }
    fn components_stub(&self) -> Vec<&'static str> {
        vec!["none; oracle = occurrence-counting interpreter + svgdx's own flat calibration document"]
    }
    fn assumptions(&self) -> Vec<&'static str> {
        vec![
            "PARTIAL: clause (a) of C14 (arithmetic semantics) is a pure function and is not decided by this family",
            "at most one random occurrence per element, so the order of attribute evaluation inside one element is not constrained",
            "content of <specs> is not a rendered element: a template draws once per instance, not at definition",
        ]
    }
}
