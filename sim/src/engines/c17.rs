//! C17 — limits reject exactly when exceeded; depth means nesting, not length.
//!
//! State under watch: the depth counter (must return to its prior value after every
//! element, Ok or Err) and the retry protocol (a limit error must not be "recovered" by
//! a later pass). Parametric documents at L-1, L, L+1 of each limit, flat length
//! amplification at constant depth, loops whose bodies need a retry or mutate their own
//! control variable. Two-sided verdict from a reference counter model.

use crate::core::*;
use crate::frontends::*;
use crate::rng::{self, Rng};
use crate::xmltree::{self, Node};
use serde::{Deserialize, Serialize};
use serde_json::Value;

pub struct C17;

#[derive(Serialize, Deserialize, Clone, Debug, PartialEq)]
pub struct Scn {
    /// family:kind, e.g. "flat:text-content"
    pub label: String,
    pub doc: String,
    pub cfg: Cfg,
    /// model verdict: true = must be accepted, false = must be rejected
    pub expect_ok: bool,
    /// on acceptance: number of output elements carrying class="m" the model expects
    #[serde(default)]
    pub expect_marks: Option<u64>,
    /// on acceptance: this text must appear (un-truncated) in the output
    #[serde(default)]
    pub expect_text: Option<String>,
    /// parameters, for the record
    pub params: String,
}

fn limit_cfg(rng: &mut Rng, which: &str, l: u32, via_config: bool) -> (Cfg, String) {
    let mut cfg = Cfg::default();
    cfg.add_auto_styles = false;
    let mut prefix = String::new();
    if via_config {
        prefix = format!("<config {which}-limit=\"{l}\"/>");
    } else {
        match which {
            "loop" => cfg.loop_limit = l,
            "var" => cfg.var_limit = l,
            _ => cfg.depth_limit = l,
        }
    }
    // options which must not influence what a limit does
    if rng.chance(1, 3) {
        cfg.use_local_styles = true;
    }
    if rng.chance(1, 4) {
        cfg.debug = true;
    }
    if rng.chance(1, 4) {
        cfg.add_metadata = true;
    }
    if rng.chance(1, 4) {
        cfg.theme = rng.pick(crate::docgen::THEMES).to_string();
        cfg.scale = 2.0;
        cfg.seed = rng.below(50);
    }
    (cfg, prefix)
}

/// wrappers usable for nesting: (open, close)
const NEST: &[(&str, &str, &str)] = &[
    ("g", "<g>", "</g>"),
    ("svg", "<svg>", "</svg>"),
    ("a", "<a href=\"#\">", "</a>"),
    ("g-attr", "<g class=\"k\" fill=\"red\">", "</g>"),
    ("if", "<if test=\"1\">", "</if>"),
    ("loop", "<loop count=\"1\">", "</loop>"),
    // containers svgdx has no special handling for, and content of other vocabularies
    ("foreignObject", "<foreignObject>", "</foreignObject>"),
    ("metadata", "<metadata>", "</metadata>"),
    ("switch", "<switch>", "</switch>"),
    ("defs", "<defs>", "</defs>"),
    ("symbol", "<symbol>", "</symbol>"),
    ("marker", "<marker>", "</marker>"),
    ("mask", "<mask>", "</mask>"),
    ("pattern", "<pattern>", "</pattern>"),
    ("div", "<div>", "</div>"),
    ("p", "<p>", "</p>"),
    ("unknown", "<frob q=\"1\">", "</frob>"),
];

fn flat_item(kind: &str, i: u64) -> String {
    match kind {
        "rect" => format!("<rect class=\"m\" xy=\"{} 0\" wh=\"1\"/>", i * 2),
        "text-content" => format!("<text class=\"m\" x=\"1\" y=\"{i}\">t</text>"),
        "rect-content" => format!("<rect class=\"m\" xy=\"{} 0\" wh=\"1\">t</rect>", i * 2),
        "g-child" => format!("<g class=\"m\"><rect xy=\"{} 0\" wh=\"1\"/></g>", i * 2),
        "g-empty" => "<g class=\"m\"></g>".to_string(),
        "defs" => format!("<defs class=\"m\"><rect id=\"d{i}\" wh=\"1\"/></defs>"),
        "a" => format!("<a class=\"m\" href=\"#\"><rect xy=\"{} 0\" wh=\"1\"/></a>", i * 2),
        "svg-nested" => format!("<svg class=\"m\"><rect xy=\"{} 0\" wh=\"1\"/></svg>", i * 2),
        "gradient" => format!("<linearGradient class=\"m\" id=\"lg{i}\"><stop offset=\"0\"/></linearGradient>"),
        "clippath" => format!("<clipPath class=\"m\" id=\"cp{i}\"><rect wh=\"1\"/></clipPath>"),
        "symbol" => format!("<symbol class=\"m\" id=\"sy{i}\"><rect wh=\"1\"/></symbol>"),
        "title" => "<title class=\"m\">x</title>".to_string(),
        "tspan-text" => format!("<text class=\"m\" x=\"1\" y=\"{i}\"><tspan>a</tspan><tspan>b</tspan></text>"),
        "loop1" => format!("<loop count=\"1\"><rect class=\"m\" xy=\"{} 0\" wh=\"1\"/></loop>", i * 2),
        "if1" => format!("<if test=\"1\"><rect class=\"m\" xy=\"{} 0\" wh=\"1\"/></if>", i * 2),
        "fwd-rect" => format!("<rect class=\"m\" xy=\"#last|h {}\" wh=\"1\"/>", i),
        "fwd-group" => format!("<g class=\"m\"><rect xy=\"#last|v {}\" wh=\"1\"/></g>", i),
        "reuse" => format!("<reuse class=\"m\" href=\"#tpl\" x=\"{}\" y=\"3\"/>", i * 2),
        "var" => format!("<var q=\"{i}\"/><rect class=\"m\" xy=\"{} 0\" wh=\"1\"/>", i * 2),
        "svg-xmlns" => format!("<svg class=\"m\" xmlns=\"http://www.w3.org/2000/svg\"><rect x=\"{}\" width=\"1\" height=\"1\"/></svg>", i * 2),
        "svg-xmlns-empty" => "<svg class=\"m\" xmlns=\"http://www.w3.org/2000/svg\"/>".to_string(),
        "marker" => format!("<marker class=\"m\" id=\"mk{i}\"><path d=\"M 0 0 L 1 1\"/></marker>"),
        "pattern" => format!("<pattern class=\"m\" id=\"pt{i}\" width=\"2\" height=\"2\"><rect width=\"1\" height=\"1\"/></pattern>"),
        "mask" => format!("<mask class=\"m\" id=\"ms{i}\"><rect width=\"1\" height=\"1\"/></mask>"),
        "filter" => format!("<filter class=\"m\" id=\"fl{i}\"><feOffset dx=\"1\" dy=\"1\"/></filter>"),
        "switch" => format!("<switch class=\"m\"><rect xy=\"{} 0\" wh=\"1\"/></switch>", i * 2),
        "style-el" => "<style class=\"m\">rect {{ fill: red; }}</style>".replace("{{", "{").replace("}}", "}"),
        "desc" => "<desc class=\"m\">d</desc>".to_string(),
        "use" => format!("<use class=\"m\" href=\"#tpl\" x=\"{}\" y=\"5\"/>", i * 2),
        "point" => format!("<point class=\"m\" xy=\"{} 1\"/>", i),
        "line-label" => format!("<line class=\"m\" xy1=\"{} 0\" xy2=\"{} 5\" text=\"t\"/>", i * 2, i * 2 + 1),
        "g-text-child" => format!("<g class=\"m\"><text x=\"{i}\" y=\"1\">t</text></g>"),
        "text-multiline" => format!("<text class=\"m\" x=\"1\" y=\"{i}\" text=\"a\\nb\"/>"),
        "box" => format!("<box class=\"m\" xy=\"{} 0\" wh=\"1\"/>", i * 2),
        "comment" => format!("<!-- c{i} --><rect class=\"m\" xy=\"{} 0\" wh=\"1\"/>", i * 2),
        "for1" => format!("<for data=\"1\" var=\"z\"><rect class=\"m\" xy=\"{} 0\" wh=\"1\"/></for>", i * 2),
        "defaults" => format!("<defaults><rect rx=\"1\"/></defaults><rect class=\"m\" xy=\"{} 0\" wh=\"1\"/>", i * 2),
        _ => format!("<rect class=\"m\" xy=\"{} 0\" wh=\"1\"/>", i * 2),
    }
}

const FLAT_KINDS: &[&str] = &[
    "rect",
    "text-content",
    "rect-content",
    "g-child",
    "g-empty",
    "defs",
    "a",
    "svg-nested",
    "gradient",
    "clippath",
    "symbol",
    "title",
    "tspan-text",
    "loop1",
    "if1",
    "fwd-rect",
    "fwd-group",
    "reuse",
    "var",
    "svg-xmlns",
    "svg-xmlns-empty",
    "marker",
    "pattern",
    "mask",
    "filter",
    "switch",
    "style-el",
    "desc",
    "use",
    "point",
    "line-label",
    "g-text-child",
    "text-multiline",
    "box",
    "comment",
    "for1",
    "defaults",
];

impl Engine for C17 {
    fn id(&self) -> &'static str {
        "C17"
    }
    fn runs(&self, tier: Tier) -> u64 {
        match tier {
            Tier::Quick => 1500,
            Tier::Thorough => 60000,
        }
    }
    fn cpu_budget_s(&self, _tier: Tier) -> f64 {
        20.0
    }

    fn generate(&self, seed: u64, index: u64, _tier: Tier, _env: &WorkerEnv) -> Value {
        let rs = rng::run_seed(seed, "C17", index);
        let mut w = Rng::sub(rs, "workload");
        let via_config = w.chance(1, 2);
        let scn = match index % 6 {
            // ---------------------------------------------------------------- nesting depth
            0 => {
                let l = if w.chance(1, 5) { 100 } else { 3 + w.below(40) as u32 };
                let delta: i64 = *w.pick(&[-1i64, 0, 1, 2]);
                // total XML nesting depth d: root svg = 1, wrappers, leaf
                let d = (l as i64 + delta).max(2) as u32;
                let (cfg, prefix) = limit_cfg(&mut w, "depth", l, via_config);
                let plain_only = w.chance(1, 2);
                let mut open = String::new();
                let mut close = String::new();
                let mut kinds = std::collections::BTreeSet::new();
                // d = 1 (root) + wrappers + 1 (leaf)
                for _ in 0..d.saturating_sub(2) {
                    let (k, o, c) = if plain_only { NEST[0] } else { *w.pick(NEST) };
                    kinds.insert(k);
                    open.push_str(o);
                    close.insert_str(0, c);
                }
                let leaf_plain = plain_only || w.chance(1, 2);
                let leaf = if leaf_plain {
                    "<rect class=\"m\" wh=\"1\"/>"
                } else {
                    "<text class=\"m\" x=\"0\" y=\"0\">t</text>"
                };
                let doc = format!("<svg>{prefix}{open}{leaf}{close}</svg>");
                // kinds whose internal accounting may add a constant get 2 levels of slack
                // on the accept side (the statement fixes "nesting", not the per-kind constant)
                let exact = plain_only && leaf_plain;
                let expect_ok = d <= l;
                let assert_side = if expect_ok && !exact && d + 2 > l { None } else { Some(expect_ok) };
                match assert_side {
                    Some(e) => Scn {
                        label: format!("depth:{}", if exact { "g-chain" } else { "mixed" }),
                        doc,
                        cfg,
                        expect_ok: e,
                        expect_marks: if e { Some(1) } else { None },
                        expect_text: None,
                        params: format!("L={l} d={d} via_config={via_config} kinds={kinds:?}"),
                    },
                    None => {
                        // inside the slack band: turn it into a clearly-within-limits case
                        let (cfg2, prefix2) = limit_cfg(&mut w, "depth", l + 3, via_config);
                        Scn {
                            label: "depth:mixed".into(),
                            doc: format!("<svg>{prefix2}{open}{leaf}{close}</svg>"),
                            cfg: cfg2,
                            expect_ok: true,
                            expect_marks: Some(1),
                            expect_text: None,
                            params: format!("L={} d={d} via_config={via_config} kinds={kinds:?}", l + 3),
                        }
                    }
                }
            }
            // ---------------------------------------------------------------- a limit lowered below where we are
            1 if index % 23 == 5 => {
                let d = 3 + w.below(6) as usize; // current nesting when the <config> is met
                let l = 1 + w.below(d as u64 - 1) as u32; // lower than that
                let extra = 1 + w.usize(4);
                let doc = format!(
                    "<svg>{}<config depth-limit=\"{l}\"/>{}<rect class=\"m\" wh=\"1\"/>{}{}</svg>",
                    "<g>".repeat(d - 1),
                    "<g>".repeat(extra),
                    "</g>".repeat(extra),
                    "</g>".repeat(d - 1)
                );
                Scn {
                    label: "depth:lowered-below-current".into(),
                    doc,
                    cfg: Cfg::default(),
                    expect_ok: false,
                    expect_marks: None,
                    expect_text: None,
                    params: format!("L={l} set at depth {d}, {extra} more levels follow"),
                }
            }
            // ---------------------------------------------------------------- flat amplification
            1 | 2 => {
                let l = if w.chance(1, 4) { 100 } else { 4 + w.below(30) as u32 };
                let (cfg, prefix) = limit_cfg(&mut w, "depth", l, via_config);
                let kind = *w.pick(FLAT_KINDS);
                let m = (l as u64) * (1 + w.below(4)) + w.below(7);
                // constant wrapper depth well within the limit
                let wrap = w.below(((l as u64).saturating_sub(6)).min(3) + 1);
                let mut open = String::new();
                let mut close = String::new();
                for _ in 0..wrap {
                    open.push_str("<g>");
                    close.insert_str(0, "</g>");
                }
                let mut items = String::new();
                for i in 0..m {
                    items.push_str(&flat_item(kind, i));
                    items.push('\n');
                }
                let mut extra = String::new();
                if kind == "reuse" || kind == "use" {
                    extra.push_str("<specs><rect id=\"tpl\" wh=\"1\"/></specs>");
                }
                let tail = if kind.starts_with("fwd") {
                    "<rect id=\"last\" xy=\"0 9\" wh=\"2\"/>"
                } else {
                    ""
                };
                Scn {
                    label: format!("flat:{kind}"),
                    doc: format!("<svg>{prefix}{extra}{open}\n{items}{close}{tail}</svg>"),
                    cfg,
                    expect_ok: true,
                    // invisible helper elements leave nothing in the output to count
                    expect_marks: if kind == "point" || kind == "box" { None } else { Some(m) },
                    expect_text: None,
                    params: format!("L={l} siblings={m} wrap={wrap} via_config={via_config}"),
                }
            }
            // ---------------------------------------------------------------- loops
            3 | 4 if w.chance(1, 10) => {
                // the limit in force is the one the configuration holds when a pass begins: a
                // <config> inside the running loop's body counts from the next pass on
                let (lo, hi) = (2 + w.below(5) as u32, 20 + w.below(30) as u32);
                let n = hi / 2 + w.below(5) as u32; // lo < n < hi
                let item = "<rect class=\"m\" xy=\"{{$i * 2}} 0\" wh=\"1\"/>";
                if w.chance(1, 2) {
                    // outer limit high, the body lowers it: rejected
                    let (cfg, prefix) = limit_cfg(&mut w, "loop", hi, via_config);
                    Scn {
                        label: "loop:config-in-body-lowers".into(),
                        doc: format!("<svg>{prefix}<loop count=\"{n}\" loop-var=\"i\"><config loop-limit=\"{lo}\"/>{item}</loop></svg>"),
                        cfg,
                        expect_ok: false,
                        expect_marks: None,
                        expect_text: None,
                        params: format!("L={hi}->{lo} passes={n} via_config={via_config}"),
                    }
                } else {
                    // outer limit low, the body raises it in its first pass: accepted
                    let (cfg, prefix) = limit_cfg(&mut w, "loop", lo, via_config);
                    Scn {
                        label: "loop:config-in-body-raises".into(),
                        doc: format!("<svg>{prefix}<loop count=\"{n}\" loop-var=\"i\"><config loop-limit=\"{hi}\"/>{item}</loop></svg>"),
                        cfg,
                        expect_ok: true,
                        expect_marks: Some(n as u64),
                        expect_text: None,
                        params: format!("L={lo}->{hi} passes={n} via_config={via_config}"),
                    }
                }
            }
            3 | 4 if w.chance(1, 8) => {
                // no loop at all: whatever svgdx repeats internally (retry passes over a chain
                // of forward references, chained clip paths) is not what loop-limit and
                // depth-limit measure, so a flat document is never rejected by them
                let l = 2 + w.below(12) as u32;
                let extra = 1 + w.below(4) as u32;
                if w.chance(1, 2) {
                    let (cfg, prefix) = limit_cfg(&mut w, "loop", l, via_config);
                    let n = l + 1 + extra;
                    let mut body = String::new();
                    for i in 0..n {
                        body.push_str(&format!("<rect class=\"m\" id=\"a{i}\" xy=\"#a{}|h 1\" wh=\"1\"/>", i + 1));
                    }
                    body.push_str(&format!("<rect class=\"m\" id=\"a{n}\" xy=\"0 0\" wh=\"1\"/>"));
                    Scn {
                        label: "loop:none-forward-chain".into(),
                        doc: format!("<svg>{prefix}{body}</svg>"),
                        cfg,
                        expect_ok: true,
                        expect_marks: Some(n as u64 + 1),
                        expect_text: None,
                        params: format!("L={l} chain={n} via_config={via_config}"),
                    }
                } else {
                    let (cfg, prefix) = limit_cfg(&mut w, "depth", l.max(4), via_config);
                    let k = (l.max(4) + extra).min(15);
                    let mut body = String::from("<clipPath id=\"c0\"><rect xy=\"0 0\" wh=\"50\"/></clipPath>");
                    for i in 1..=k {
                        body.push_str(&format!("<clipPath id=\"c{i}\" clip-path=\"url(#c{})\"><rect xy=\"{i} {i}\" wh=\"40\"/></clipPath>", i - 1));
                    }
                    body.push_str(&format!("<rect class=\"m\" id=\"z\" xy=\"0 0\" wh=\"60\" clip-path=\"url(#c{k})\"/><rect class=\"m\" xy=\"#z|h 1\" wh=\"2\"/>"));
                    Scn {
                        label: "depth:none-clip-chain".into(),
                        doc: format!("<svg>{prefix}{body}</svg>"),
                        cfg,
                        expect_ok: true,
                        expect_marks: Some(2),
                        expect_text: None,
                        params: format!("L={} chain={k} via_config={via_config}", l.max(4)),
                    }
                }
            }
            3 | 4 => {
                let l = if w.chance(1, 6) { 1000 } else { 2 + w.below(30) as u32 };
                let delta: i64 = *w.pick(&[-1i64, 0, 1, 3]);
                let n = (l as i64 + delta).max(1) as u64;
                let (cfg, prefix) = limit_cfg(&mut w, "loop", l, via_config);
                let kind = *w.pick(&[
                    "count-in-specs",
                    "while-in-specs-template",
                    "count",
                    "while",
                    "until",
                    "for",
                    "count-fwd",
                    "while-fwd",
                    "nested",
                    "while-in-group",
                    "count-expr",
                    "count-comment-body",
                    "count-blank-body",
                ]);
                let item = "<rect class=\"m\" xy=\"{{$i * 2}} 0\" wh=\"1\"/>";
                let (body, marks) = match kind {
                    "count" => (format!("<loop count=\"{n}\" loop-var=\"i\">{item}</loop>"), n),
                    // a body without any element still runs its passes
                    "count-comment-body" => (format!("<loop count=\"{n}\"><!-- {item} --></loop><rect class=\"m\" wh=\"1\"/>"), 1),
                    "count-blank-body" => (format!("<loop count=\"{n}\">\n   \n</loop><rect class=\"m\" wh=\"1\"/>"), 1),
                    // content of <specs> is evaluated once at definition time: its loops count too
                    "count-in-specs" => (format!("<specs><loop count=\"{n}\" loop-var=\"i\"><rect id=\"s$i\" wh=\"1\"/></loop></specs><rect class=\"m\" wh=\"2\"/>"), 1),
                    "while-in-specs-template" => (
                        format!("<specs><g id=\"tw\"><var i=\"0\"/><loop while=\"lt($i, {n})\"><rect wh=\"1\"/><var i=\"{{{{$i + 1}}}}\"/></loop></g></specs><rect class=\"m\" wh=\"2\"/>"),
                        1,
                    ),
                    "count-expr" => (
                        format!("<var c=\"{n}\"/><loop count=\"{{{{$c}}}}\" loop-var=\"i\">{item}</loop>"),
                        n,
                    ),
                    "while" => (
                        format!("<var i=\"0\"/><loop while=\"lt($i, {n})\">{item}<var i=\"{{{{$i + 1}}}}\"/></loop>"),
                        n,
                    ),
                    "until" => (
                        format!("<var i=\"0\"/><loop until=\"ge($i, {n})\">{item}<var i=\"{{{{$i + 1}}}}\"/></loop>"),
                        n,
                    ),
                    "for" => {
                        let data: Vec<String> = (0..n).map(|x| x.to_string()).collect();
                        (format!("<for data=\"{}\" var=\"i\">{item}</for>", data.join(", ")), n)
                    }
                    "count-fwd" => (
                        format!(
                            "<loop count=\"{n}\" loop-var=\"i\"><rect class=\"m\" xy=\"#last|h {{{{$i}}}}\" wh=\"1\"/></loop><rect id=\"last\" xy=\"0 9\" wh=\"2\"/>"
                        ),
                        n,
                    ),
                    "while-fwd" => (
                        // body mutates its own control variable and needs a retry
                        format!(
                            "<var i=\"0\"/><loop while=\"lt($i, {n})\"><rect class=\"m\" xy=\"#last|v {{{{$i}}}}\" wh=\"1\"/><var i=\"{{{{$i + 1}}}}\"/></loop><rect id=\"last\" xy=\"0 9\" wh=\"2\"/>"
                        ),
                        n,
                    ),
                    "while-in-group" => (
                        format!(
                            "<g><var i=\"0\"/><loop while=\"lt($i, {n})\">{item}<var i=\"{{{{$i + 1}}}}\"/></loop></g>"
                        ),
                        n,
                    ),
                    _ => {
                        // nested: each loop within its limit even if the product is not
                        let inner = 1 + w.below(l.min(6) as u64);
                        (
                            format!("<loop count=\"{n}\" loop-var=\"i\"><loop count=\"{inner}\">{item}</loop></loop>"),
                            n * inner,
                        )
                    }
                };
                let expect_ok = n <= l as u64;
                Scn {
                    label: format!("loop:{kind}"),
                    doc: format!("<svg>{prefix}{body}</svg>"),
                    cfg,
                    expect_ok,
                    expect_marks: if expect_ok { Some(marks) } else { None },
                    expect_text: None,
                    params: format!("L={l} passes={n} via_config={via_config}"),
                }
            }
            // ---------------------------------------------------------------- a limit no f32 can hold
            _ if index % 97 == 13 => {
                let (l, n): (u32, usize) = *w.pick(&[(16_777_217u32, 16_777_217usize), (16_777_217, 16_777_218), (16_777_219, 16_777_219), (16_777_219, 16_777_220)]);
                let (cfg, prefix) = limit_cfg(&mut w, "var", l, true);
                let val = "v".repeat(n);
                let expect_ok = n <= l as usize;
                Scn {
                    label: "var:limit-above-2^24".into(),
                    doc: format!("<svg>{prefix}<var v=\"{val}\"/><text xy=\"0 0\" text=\"ok\"/></svg>"),
                    cfg,
                    expect_ok,
                    expect_marks: None,
                    expect_text: None,
                    params: format!("L={l} len={n} via_config=true"),
                }
            }
            // ---------------------------------------------------------------- var length / reuse recursion
            _ => {
                if w.chance(1, 2) {
                    let l = if w.chance(1, 5) { 1024 } else { 1 + w.below(60) as u32 };
                    let delta: i64 = *w.pick(&[-1i64, 0, 1, 5]);
                    let n = (l as i64 + delta).max(1) as usize;
                    let (cfg, prefix) = limit_cfg(&mut w, "var", l, via_config);
                    let kind = *w.pick(&[
                        "literal", "concat", "copy", "in-group", "fwd", "copy-of-g-attr", "copy-of-reuse-attr", "copy-of-for-var", "braced-copy",
                        "reuse-attr", "reuse-attr-overrides-leaf-attr", "reuse-attr-overrides-group-default", "g-attr-direct", "for-var-direct",
                        "expr-result", "expr-result",
                    ]);
                    // (a number an expression computes: 2..7 digits, limits to match)
                    let (l, n) = if kind == "expr-result" {
                        let l = 1 + w.below(7) as u32;
                        (l, ((l as i64 + delta).clamp(2, 7)) as usize)
                    } else {
                        (l, n)
                    };
                    // templates are evaluated once at definition time with their parameters
                    // still unexpanded ("$label"): keep the limit above such placeholders
                    let (l, n) = if kind.contains("reuse") && l < 16 { (l + 16, n + 16) } else { (l, n) };
                    let (cfg, prefix) = limit_cfg(&mut w, "var", l, via_config);
                    let val: String = if w.chance(1, 3) {
                        // multi-byte characters at a drawn byte offset (limits count bytes;
                        // nothing may slice through a character)
                        let pre = w.usize(n.min(40) + 1);
                        let mut v = "a".repeat(pre);
                        let mb = *w.pick(&["é", "→", "ß", "😀"]);
                        while v.len() + mb.len() <= n {
                            v.push_str(mb);
                        }
                        while v.len() < n {
                            v.push('b');
                        }
                        v
                    } else {
                        (0..n).map(|i| (b'a' + (i % 26) as u8) as char).collect()
                    };
                    let val = if kind == "expr-result" { format!("1{}1", "0".repeat(n - 2)) } else { val };
                    let body = match kind {
                        "expr-result" => format!("<var v=\"{{{{{} + 1}}}}\"/><text xy=\"0 0\" text=\"$v\"/>", format!("{}0", &val[..val.len() - 1])),
                        "literal" => format!("<var v=\"{val}\"/><text xy=\"0 0\" text=\"$v\"/>"),
                        "concat" => {
                            let mut cut = n / 2;
                            while !val.is_char_boundary(cut) {
                                cut -= 1;
                            }
                            let (a, b) = val.split_at(cut);
                            format!("<var a=\"{a}\" b=\"{b}\"/><var v=\"${{a}}${{b}}\"/><text xy=\"0 0\" text=\"$v\"/>")
                        }
                        "copy" => format!("<var w=\"{val}\"/><var v=\"$w\"/><text xy=\"0 0\" text=\"$v\"/>"),
                        "in-group" => format!("<g><var v=\"{val}\"/><text xy=\"0 0\" text=\"$v\"/></g>"),
                        "fwd" => format!(
                            "<g><rect xy=\"#last|h\" wh=\"1\"/><var v=\"{val}\"/><text xy=\"0 0\" text=\"$v\"/></g><rect id=\"last\" wh=\"2\"/>"
                        ),
                        // values which did not come from a <var> copied verbatim into one
                        "copy-of-g-attr" => format!("<g label=\"{val}\"><var v=\"$label\"/><text xy=\"0 0\" text=\"$v\"/></g>"),
                        "copy-of-reuse-attr" => format!(
                            "<specs><g id=\"tv\"><var v=\"$label\"/><text xy=\"0 0\" text=\"$v\"/></g></specs><reuse href=\"#tv\" label=\"{val}\"/>"
                        ),
                        "copy-of-for-var" => format!("<for data=\"'{val}'\" var=\"x\"><var v=\"${{x}}\"/><text xy=\"0 0\" text=\"$v\"/></for>"),
                        // the attribute also exists on the target: it overrides the target's own
                        // value AND is a variable of the instance like any other reuse attribute
                        "reuse-attr-overrides-leaf-attr" => format!("<specs><text id=\"tv\" xy=\"0 0\" text=\"n/a\"/></specs><reuse href=\"#tv\" text=\"{val}\"/>"),
                        "reuse-attr-overrides-group-default" => format!(
                            "<specs><g id=\"tv\" label=\"n/a\"><text xy=\"0 0\" text=\"$label\"/></g></specs><reuse href=\"#tv\" label=\"{val}\"/>"
                        ),
                        // variables which never pass through <var> or <reuse> (known finding: these
                        // are not held to the limit)
                        "g-attr-direct" => format!("<g label=\"{val}\"><text xy=\"0 0\" text=\"$label\"/></g>"),
                        "for-var-direct" => format!("<for data=\"'{val}'\" var=\"x\"><text xy=\"0 0\" text=\"$x\"/></for>"),
                        "braced-copy" => format!("<g label=\"{val}\"><var v=\"${{label}}\"/><text xy=\"0 0\" text=\"$v\"/></g>"),
                        _ => format!("<specs><g id=\"tv\"><text xy=\"0 0\" text=\"$label\"/></g></specs><reuse href=\"#tv\" label=\"{val}\"/>"),
                    };
                    // "copy"/"concat": the intermediate variables are within the limit only if
                    // they are themselves short enough
                    let expect_ok = n <= l as usize;
                    Scn {
                        label: format!("var:{kind}"),
                        doc: format!("<svg>{prefix}{body}</svg>"),
                        cfg,
                        expect_ok,
                        expect_marks: None,
                        expect_text: if expect_ok { Some(val) } else { None },
                        params: format!("L={l} len={n} via_config={via_config}"),
                    }
                } else {
                    let l = 6 + w.below(40) as u32;
                    let (cfg, prefix) = limit_cfg(&mut w, "depth", l, via_config);
                    let kind = *w.pick(&["self-1", "self-2", "mutual", "bounded-ok", "bounded-deep"]);
                    let (body, expect_ok, marks) = match kind {
                        "self-1" => (
                            "<specs><g id=\"t\"><rect wh=\"1\"/><reuse href=\"#t\"/></g></specs><reuse href=\"#t\"/>".to_string(),
                            false,
                            None,
                        ),
                        "self-2" => (
                            "<specs><g id=\"t\"><reuse href=\"#t\"/><reuse href=\"#t\"/></g></specs><reuse href=\"#t\"/>".to_string(),
                            false,
                            None,
                        ),
                        "mutual" => (
                            "<specs><g id=\"a\"><reuse href=\"#b\"/></g><g id=\"b\"><rect wh=\"1\"/><reuse href=\"#a\"/></g></specs><reuse href=\"#a\"/>".to_string(),
                            false,
                            None,
                        ),
                        "bounded-ok" => {
                            // K recursion levels, 3 element levels each; far inside the limit
                            let k = ((l as u64).saturating_sub(6)) / 4;
                            (
                                format!("<specs><g id=\"t\"><rect class=\"m\" wh=\"1\"/><if test=\"lt($n, {k})\"><reuse href=\"#t\" n=\"{{{{$n + 1}}}}\"/></if></g></specs><reuse href=\"#t\" n=\"0\"/>"),
                                true,
                                Some(k + 1),
                            )
                        }
                        _ => {
                            // at least one level per recursion: K >= L must be rejected
                            let k = l as u64 + w.below(5);
                            (
                                format!("<specs><g id=\"t\"><rect class=\"m\" wh=\"1\"/><if test=\"lt($n, {k})\"><reuse href=\"#t\" n=\"{{{{$n + 1}}}}\"/></if></g></specs><reuse href=\"#t\" n=\"0\"/>"),
                                false,
                                None,
                            )
                        }
                    };
                    Scn {
                        label: format!("reuse:{kind}"),
                        doc: format!("<svg>{prefix}{body}</svg>"),
                        cfg,
                        expect_ok,
                        expect_marks: marks,
                        expect_text: None,
                        params: format!("L={l} via_config={via_config}"),
                    }
                }
            }
        };
        serde_json::to_value(scn).unwrap()
    }

    fn execute(&self, scenario: &Value, env: &WorkerEnv) -> RunResult {
        let mut res = RunResult::default();
        let scn: Scn = match serde_json::from_value(scenario.clone()) {
            Ok(s) => s,
            Err(e) => {
                res.harness_error = Some(format!("bad scenario: {e}"));
                return res;
            }
        };
        let (d, c) = (scn.doc.clone(), scn.cfg.clone());
        let r = on_thread(STACK_MAIN, move || fe_stream_plain(d.as_bytes(), &c));
        let (out, probe) = match r {
            Ok(v) => v,
            Err(e) => {
                res.harness_error = Some(e);
                return res;
            }
        };
        res.stats.evaluations = 1;
        res.stats.outcome(out.class());
        res.stats.fingerprint = rng::hash_str(&format!("{}|{}", scn.label, scn.params));
        if let Some(p) = &probe {
            res.stats.steps += p.attempts;
            res.stats.probe_n("failed_attempts", p.failed_attempts);
            res.stats.probe_n("attempts_leaving_depth_or_stacks_changed", p.dirty_attempts);
            if p.depth != 0 {
                res.stats.probe("end_state_depth_counter_nonzero");
            }
            res.stats.nontrivial = p.attempts > 1;
        }
        let family = scn.label.clone();
        // the command, with the same limits given the way a user gives them (a flag only where
        // the value is not the default): it must reach the library's verdict
        if rng::hash_str(&scn.params) % 4 == 0 && matches!(out, Outcome::Ok(_) | Outcome::Err(_)) {
            let dir = env.scratch.join("c17");
            let _ = std::fs::create_dir_all(&dir);
            // every second time all three limits are spelled out (also where they are the
            // defaults) and the environment holds limit-like variables with other values: what
            // is on the command line is what counts
            let explicit = rng::hash_str(&scn.params) % 8 == 0;
            let mut args = scn.cfg.to_cli_args();
            let mut envs: Vec<(String, String)> = vec![];
            if explicit {
                for (flag, val) in [("--loop-limit", scn.cfg.loop_limit), ("--var-limit", scn.cfg.var_limit), ("--depth-limit", scn.cfg.depth_limit)] {
                    if !args.iter().any(|a| a == flag) {
                        args.push(flag.into());
                        args.push(val.to_string());
                    }
                }
                let other = |v: u32| if v > 50 { "3".to_string() } else { "100000".to_string() };
                envs.push(("SVGDX_LOOP_LIMIT".into(), other(scn.cfg.loop_limit)));
                envs.push(("SVGDX_VAR_LIMIT".into(), other(scn.cfg.var_limit)));
                envs.push(("SVGDX_DEPTH_LIMIT".into(), other(scn.cfg.depth_limit)));
                envs.push(("SVGDX_LIMITS".into(), "3".into()));
            }
            let cr = run_child(
                env,
                "svgdx",
                ChildSpec {
                    args: args.clone(),
                    stdin: Some(scn.doc.as_bytes()),
                    cwd: &dir,
                    entropy: Some(1),
                    fake_time_ns: Some(1_700_000_000_000_000_000),
                    env: envs,
                    env_remove: vec![],
                    timeout: std::time::Duration::from_secs(60),
                    stdout_to: None,
                    stdin_file: None,
                    stderr_to: None,
                },
            );
            res.stats.evaluations += 1;
            res.stats.probe("verdict_repeated_by_the_command");
            if let Ok(c) = cr {
                let cmd_ok = c.code == Some(0);
                if !c.timed_out && c.signal.is_none() && cmd_ok != out.is_ok() {
                    res.violation(
                        "limits/command-verdict-differs",
                        &format!("c17:{family}:command-{}", if cmd_ok { "accepts" } else { "rejects" }),
                        format!(
                            "the svgdx command (arguments {:?}{}) {} a document the library {}; params {}; document: {}",
                            args,
                            if explicit { ", SVGDX_*_LIMIT set to other values in the environment" } else { "" },
                            if cmd_ok { "accepts" } else { "rejects" },
                            if out.is_ok() { "accepts" } else { "rejects" },
                            scn.params,
                            shorten(&scn.doc, 500)
                        ),
                    );
                } else if c.signal.is_some() || c.code == Some(101) {
                    res.violation("totality/command-crash", &format!("c17:{family}:command-crash"), format!("the svgdx command died: code {:?} signal {:?}; params {}", c.code, c.signal, scn.params));
                }
            }
        }
        match (&out, scn.expect_ok) {
            (Outcome::Panic(p), _) => {
                res.violation("totality/panic", &format!("c17:{family}:panic"), format!("{p}; params {}", scn.params));
            }
            (Outcome::Budget, _) => {}
            (Outcome::Err(e), true) => {
                res.violation(
                    "limits/rejected-within-limits",
                    &format!("c17:{family}:expected-ok-got-err"),
                    format!("document within its limits ({}) was rejected: {}; document: {}", scn.params, shorten(e, 300), shorten(&scn.doc, 600)),
                );
            }
            (Outcome::Ok(b), false) => {
                res.violation(
                    "limits/accepted-beyond-limit",
                    &format!("c17:{family}:expected-err-got-ok"),
                    format!(
                        "document exceeding its limit ({}) was accepted; document: {}; output: {}",
                        scn.params,
                        shorten(&scn.doc, 600),
                        shorten(&String::from_utf8_lossy(b), 400)
                    ),
                );
            }
            (Outcome::Ok(b), true) => {
                let s = String::from_utf8_lossy(b);
                if let Some(m) = scn.expect_marks {
                    let got = count_marks(&s, scn.label.contains("text") || scn.label.starts_with("depth"));
                    if got != Some(m) {
                        res.violation(
                            "limits/truncated-output",
                            &format!("c17:{family}:wrong-count"),
                            format!("expected {m} rendered marker elements, output has {got:?} ({}); document: {}", scn.params, shorten(&scn.doc, 600)),
                        );
                    }
                }
                if let Some(t) = &scn.expect_text {
                    if !s.contains(t.as_str()) {
                        res.violation(
                            "limits/truncated-value",
                            &format!("c17:{family}:value-missing"),
                            format!("variable value of length {} not found un-truncated in output ({})", t.len(), scn.params),
                        );
                    }
                }
            }
            (Outcome::Err(_), false) => {}
        }
        res
    }

    fn shrink(&self, scenario: &Value) -> Vec<Value> {
        // parametric documents: shrink the document text XML-aware, keeping the verdict side
        let scn: Scn = match serde_json::from_value(scenario.clone()) {
            Ok(s) => s,
            Err(_) => return vec![],
        };
        let mut out = Vec::new();
        if scn.expect_ok {
            // fewer siblings still within limits: model count no longer known => drop the count check
            for d in xmltree::shrink_candidates(scn.doc.as_bytes()).into_iter().take(60) {
                if let Ok(doc) = String::from_utf8(d) {
                    let mut s = scn.clone();
                    s.doc = doc;
                    s.expect_marks = None;
                    s.expect_text = None;
                    out.push(s);
                }
            }
        }
        out.into_iter().map(|s| serde_json::to_value(s).unwrap()).collect()
    }

    fn rule(&self) -> &'static str {
        "run = one parametric document with a limit L (API or <config>): nesting depth L-1/L/L+1/L+2 over g/svg/a/if/loop wrappers, flat amplification (L..4L siblings of 19 element kinds at constant depth, incl. forward-referencing ones), loops (count/while/until/for/nested/retried/self-mutating) with L-1/L/L+1/L+3 passes, variable values of length L-1/L/L+1/L+5, reuse recursion (self, fan-out 2, mutual, bounded); verdict from a counter model, output element count checked on acceptance; distinct by (family, parameters); non-trivial = more than one element attempt"
    }
    fn components_real(&self) -> Vec<&'static str> {
        vec!["svgdx library (transform_stream): depth counter, loop/var limits, retry work-list, <config>"]
    }
    fn components_stub(&self) -> Vec<&'static str> {
        vec!["none; oracle = reference counter model of nesting depth, loop passes and value lengths"]
    }
    fn assumptions(&self) -> Vec<&'static str> {
        vec![
            "nesting depth = XML element levels with the root <svg> as level 1; loop/if are levels",
            "for wrapper/leaf kinds whose internal accounting may add a constant (text content, nested svg, a, if, loop) acceptance is only asserted at depth <= L-2; pure g chains with a rect leaf are asserted exactly",
            "bounded reuse recursion is asserted accepted only at about a quarter of the limit and rejected only at K >= L levels",
        ]
    }
}

fn count_marks(out: &str, marks_text: bool) -> Option<u64> {
    let tree = xmltree::parse(out)?;
    let mut all = Vec::new();
    xmltree::walk(&tree, &mut all);
    let mut n = 0;
    for e in all {
        if let Node::Elem { .. } = e {
            if let Some(c) = e.attr("class") {
                // generated <text> of a shape inherits the shape's classes: not a rendered
                // input element of its own
                let generated_text = e.name() == Some("text") && e.attr("class").map(|c| c.contains("d-text")).unwrap_or(false) && !marks_text;
                if c.split(' ').any(|t| t == "m") && !generated_text {
                    n += 1;
                }
            }
        }
    }
    Some(n)
}
