use crate::core::Engine;

pub mod c01;
pub mod c06;
pub mod c07;
pub mod c10;
pub mod c14;
pub mod c15;
pub mod c17;

pub fn all() -> Vec<&'static dyn Engine> {
    vec![&c01::C01, &c06::C06, &c07::C07, &c10::C10, &c14::C14, &c15::C15, &c17::C17]
}

pub fn lookup(id: &str) -> Option<&'static dyn Engine> {
    all().into_iter().find(|e| e.id() == id)
}
