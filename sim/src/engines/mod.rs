use crate::core::Engine;

pub mod c06;

pub fn all() -> Vec<&'static dyn Engine> {
    vec![&c06::C06]
}

pub fn lookup(id: &str) -> Option<&'static dyn Engine> {
    all().into_iter().find(|e| e.id() == id)
}
