//! C01 — totality across front-ends: every input gives a result or an error, never a
//! panic, an abort or a hang, through the library API, the svgdx command and the
//! server's transform endpoint — under stream faults and corruption.

use crate::core::*;
use crate::docgen;
use crate::frontends::*;
use crate::hostile;
use crate::rng::{self, Rng};
use crate::simio::{self, ReadPlan, WritePlan};
use crate::turnstile::StepBudgetExceeded;
use crate::xmltree;
use serde::{Deserialize, Serialize};
use serde_json::Value;
use std::cell::Cell;
use std::rc::Rc;
use std::sync::Mutex;
use std::time::Duration;

pub struct C01;

#[derive(Serialize, Deserialize, Clone, Debug, PartialEq)]
pub struct Scn {
    pub label: String,
    pub doc: Doc,
    pub cfg: Cfg,
    pub rplan: ReadPlan,
    pub wplan: WritePlan,
    /// front-ends to drive: str, stream, cli-file, router, cli-proc-file, cli-proc-stdin, server-proc
    pub frontends: Vec<String>,
    /// stack size of the simulated thread for library/CLI calls (2 = spawned-thread default, 8 = main thread)
    pub stack_mib: u8,
    /// OS entropy (hash seeds) and wall clock of this run, behind the libc seam
    #[serde(default)]
    pub entropy: u64,
    #[serde(default)]
    pub clock_ns: u64,
}

pub const STEP_BUDGET: u64 = 3_000_000;

/// Install a step-counting callback on this thread; exceeding the budget unwinds with
/// StepBudgetExceeded (a deterministic bounded-liveness verdict).
pub fn install_step_budget(budget: u64) -> Rc<Cell<u64>> {
    let steps = Rc::new(Cell::new(0u64));
    let s2 = steps.clone();
    svgdx::verif::set_callback(Some(Box::new(move |site| {
        // the logical clock ticks once per element evaluation
        if !matches!(site, svgdx::verif::Site::ElemEnter) {
            return;
        }
        let n = s2.get() + 1;
        s2.set(n);
        if n > budget {
            std::panic::panic_any(StepBudgetExceeded);
        }
    })));
    steps
}

static SERVER: Mutex<Option<ServerChild>> = Mutex::new(None);

fn class_of(label: &str) -> &str {
    label.split(':').next().unwrap_or(label)
}

fn panic_site(p: &str) -> String {
    // "file:line: message" -> file:line
    let mut parts = p.splitn(3, ':');
    let f = parts.next().unwrap_or("?");
    let l = parts.next().unwrap_or("?");
    let f = f.rsplit("/src/").next().unwrap_or(f);
    format!("{f}:{l}")
}

impl Engine for C01 {
    fn id(&self) -> &'static str {
        "C01"
    }
    fn runs(&self, tier: Tier) -> u64 {
        match tier {
            Tier::Quick => 3000,
            Tier::Thorough => 40000,
        }
    }
    fn cpu_budget_s(&self, _tier: Tier) -> f64 {
        12.0
    }
    fn crash_signature(&self, scenario: &Value, kind: &str) -> String {
        let label = scenario.get("label").and_then(|l| l.as_str()).unwrap_or("?");
        format!("c01:{kind}:{}", class_of(label))
    }

    fn generate(&self, seed: u64, index: u64, tier: Tier, env: &WorkerEnv) -> Value {
        let rs = rng::run_seed(seed, "C01", index);
        let mut w = Rng::sub(rs, "workload");
        let mut c = Rng::sub(rs, "config");
        let mut f = Rng::sub(rs, "faults");
        let (label, bytes) = hostile::hostile_doc(&mut w, env);
        let mut cfg = docgen::draw_cfg(&mut c, true);
        if c.chance(1, 3) {
            cfg = Cfg::default();
        }
        let hard = f.chance(1, 2);
        let hard_read = hard && f.chance(1, 2);
        let rplan = simio::draw_read_plan(&mut f, bytes.len(), hard_read);
        let wplan = simio::draw_write_plan(&mut f, bytes.len().max(200), hard);
        let mut frontends = vec!["stream".to_string()];
        if std::str::from_utf8(&bytes).is_ok() {
            frontends.push("str".into());
            frontends.push("router".into());
        }
        frontends.push("cli-file".into());
        if index % 3 == 0 && bytes.len() < (1 << 20) {
            frontends.push(if index % 2 == 0 { "cli-proc-file" } else { "cli-proc-stdin" }.to_string());
        }
        if (index % 40 == 7 || (tier == Tier::Quick && index % 20 == 3)) && std::str::from_utf8(&bytes).is_ok() {
            frontends.push("server-proc".into());
        }
        let scn = Scn {
            label,
            doc: Doc(bytes),
            cfg,
            rplan,
            wplan,
            frontends,
            stack_mib: if w.chance(1, 2) { 2 } else { 8 },
            entropy: Rng::sub(rs, "entropy").next_u64(),
            clock_ns: 1_700_000_000_000_000_000 + Rng::sub(rs, "clock").below(86_400_000_000_000),
        };
        serde_json::to_value(scn).unwrap()
    }

    fn execute(&self, scenario: &Value, env: &WorkerEnv) -> RunResult {
        let mut res = RunResult::default();
        let scn: Scn = match serde_json::from_value(scenario.clone()) {
            Ok(s) => s,
            Err(e) => {
                res.harness_error = Some(format!("bad scenario: {e}"));
                return res;
            }
        };
        let stack = (scn.stack_mib.max(1) as usize) << 20;
        crate::seam::arm(scn.entropy);
        crate::seam::set_time(scn.clock_ns);
        res.stats.clock(scn.clock_ns);
        let cls = class_of(&scn.label).to_string();
        let mut classes: Vec<String> = Vec::new();
        let mut total_steps = 0u64;
        let run_dir = env.scratch.join("c01");
        let _ = std::fs::remove_dir_all(&run_dir);
        let _ = std::fs::create_dir_all(&run_dir);

        let note = |res: &mut RunResult, fe: &str, o: &Outcome| {
            res.stats.evaluations += 1;
            res.stats.frontend(fe);
            res.stats.outcome(o.class());
            match o {
                Outcome::Panic(p) => {
                    res.violation(
                        "totality/panic",
                        &format!("c01:panic:{}", panic_site(p)),
                        format!("front-end {fe} panicked: {p}; input class {}; input: {}", scn.label, shorten(&scn.doc.lossy(), 300)),
                    );
                }
                Outcome::Budget => {
                    res.violation(
                        "liveness/step-budget",
                        &format!("c01:step-budget:{cls}"),
                        format!("front-end {fe} exceeded {STEP_BUDGET} element evaluations; input class {}; input: {}", scn.label, shorten(&scn.doc.lossy(), 300)),
                    );
                }
                _ => {}
            }
        };

        for fe in &scn.frontends {
            match fe.as_str() {
                "str" => {
                    let (d, c) = (scn.doc.0.clone(), scn.cfg.clone());
                    let r = on_thread(stack, move || {
                        let steps = install_step_budget(STEP_BUDGET);
                        let o = fe_str(&d, &c);
                        (o, steps.get())
                    });
                    match r {
                        Ok((Some(o), st)) => {
                            total_steps += st;
                            note(&mut res, "str", &o);
                            classes.push(o.class().into());
                        }
                        Ok((None, _)) => {}
                        Err(e) => {
                            res.harness_error = Some(e);
                            return res;
                        }
                    }
                }
                "stream" => {
                    let (d, c, rp, wp) = (scn.doc.0.clone(), scn.cfg.clone(), scn.rplan.clone(), scn.wplan.clone());
                    let r = on_thread(stack, move || {
                        let steps = install_step_budget(STEP_BUDGET);
                        let s2 = steps.clone();
                        // I/O calls tick the logical clock too
                        let y: simio::YieldFn = Rc::new(move |_| {
                            let n = s2.get() + 1;
                            s2.set(n);
                            if n > STEP_BUDGET {
                                std::panic::panic_any(StepBudgetExceeded);
                            }
                        });
                        let golden = fe_stream(&d, &c, &ReadPlan::default(), &WritePlan::default(), None);
                        let faulty = fe_stream(&d, &c, &rp, &wp, Some(y));
                        (golden.outcome, faulty.outcome, faulty.accepted, faulty.fired_r, faulty.fired_w, steps.get())
                    });
                    let (golden, faulty, accepted, fr, fw, st) = match r {
                        Ok(v) => v,
                        Err(e) => {
                            res.harness_error = Some(e);
                            return res;
                        }
                    };
                    total_steps += st;
                    note(&mut res, "stream", &golden);
                    note(&mut res, "stream+faults", &faulty);
                    classes.push(golden.class().into());
                    for (k, v) in fr.map.iter().chain(fw.map.iter()) {
                        *res.stats.faults.entry(k.clone()).or_insert(0) += v;
                    }
                    if matches!(golden, Outcome::Panic(_) | Outcome::Budget) || matches!(faulty, Outcome::Panic(_) | Outcome::Budget) {
                        continue;
                    }
                    let hard_r = fr.hard_read;
                    let hard_w = fw.hard_write || fw.write_zero || fw.flush_err;
                    if hard_r && !faulty.is_err() {
                        res.violation(
                            "stream/read-error-swallowed",
                            "c01:read-error-swallowed",
                            format!("a hard read error fired ({:?}) but the transform returned {}", scn.rplan.hard, faulty.brief()),
                        );
                    }
                    if hard_w && !faulty.is_err() {
                        res.violation(
                            "stream/write-error-swallowed",
                            "c01:write-error-swallowed",
                            format!("a hard write fault fired ({:?}) but the transform returned {}", fw.map, faulty.brief()),
                        );
                    }
                    if hard_w {
                        res.stats.probe("hard_write_fault_fired");
                        if let Outcome::Ok(g) = &golden {
                            if !is_prefix_modulo_local_id(&accepted, g, wants_local_styles(&scn.doc.0, &scn.cfg)) {
                                res.violation(
                                    "stream/accepted-bytes-not-a-prefix",
                                    "c01:write-not-prefix",
                                    format!("bytes accepted before the write fault are not a prefix of the fault-free output ({} accepted)", accepted.len()),
                                );
                            }
                            if !accepted.is_empty() {
                                res.stats.probe("hard_write_fault_after_some_output");
                            }
                        }
                    }
                    if hard_r {
                        res.stats.probe("hard_read_fault_fired");
                    }
                    if !hard_r && !hard_w {
                        // only transparent faults fired: result must be identical to the fault-free run
                        if !same_outcome_modulo_local_id(&faulty, &golden, wants_local_styles(&scn.doc.0, &scn.cfg)) {
                            res.violation(
                                "stream/transparent-fault-visible",
                                "c01:transparent-fault-visible",
                                format!(
                                    "only transparent stream faults fired ({:?} / {:?}) but the result changed: {} vs fault-free {}",
                                    fr.map,
                                    fw.map,
                                    faulty.brief(),
                                    golden.brief()
                                ),
                            );
                        }
                        if !fr.map.is_empty() || !fw.map.is_empty() {
                            res.stats.probe("transparent_faults_only");
                        }
                    }
                }
                "cli-file" => {
                    let dir = run_dir.join("cli");
                    let _ = std::fs::create_dir_all(&dir);
                    let inp = dir.join("in.xml");
                    let outp = dir.join("out.svg");
                    if std::fs::write(&inp, &scn.doc.0).is_err() {
                        res.harness_error = Some("cannot write input file".into());
                        return res;
                    }
                    let (c, i, o) = (scn.cfg.clone(), inp.display().to_string(), outp.display().to_string());
                    let r = on_thread(stack, move || {
                        let steps = install_step_budget(STEP_BUDGET);
                        let out = fe_cli_inproc(&c, &i, &o);
                        (out, steps.get())
                    });
                    match r {
                        Ok((o, st)) => {
                            total_steps += st;
                            note(&mut res, "cli-file", &o);
                            classes.push(o.class().into());
                        }
                        Err(e) => {
                            res.harness_error = Some(e);
                            return res;
                        }
                    }
                }
                "router" => {
                    let (d, am) = (scn.doc.0.clone(), scn.cfg.add_metadata);
                    let r = on_thread(STACK_WORKER, move || {
                        let steps = install_step_budget(STEP_BUDGET);
                        let out = fe_router(&d, if am { Some(true) } else { None });
                        (out, steps.get())
                    });
                    match r {
                        Ok((Ok(h), st)) => {
                            total_steps += st;
                            res.stats.evaluations += 1;
                            res.stats.frontend("router");
                            res.stats.outcome(if h.status == 200 { "ok" } else { "err" });
                            if h.needed_runtime {
                                res.stats.probe("router_needed_runtime");
                            }
                            if !(h.status / 100 == 2 || h.status / 100 == 4) {
                                res.violation(
                                    "totality/http-status",
                                    &format!("c01:http-status:{}", h.status),
                                    format!("POST /api/transform answered {} for input class {}", h.status, scn.label),
                                );
                            }
                        }
                        Ok((Err(o), st)) => {
                            total_steps += st;
                            note(&mut res, "router", &o);
                        }
                        Err(e) => {
                            res.harness_error = Some(e);
                            return res;
                        }
                    }
                }
                k @ ("cli-proc-file" | "cli-proc-stdin") => {
                    let dir = run_dir.join("proc");
                    let _ = std::fs::create_dir_all(&dir);
                    let mut args = scn.cfg.to_cli_args();
                    let stdin_data;
                    if k == "cli-proc-file" {
                        let _ = std::fs::write(dir.join("in.xml"), &scn.doc.0);
                        args.push("in.xml".into());
                        args.push("-o".into());
                        args.push("out.svg".into());
                        stdin_data = None;
                    } else {
                        stdin_data = Some(scn.doc.0.as_slice());
                    }
                    let cr = run_child(
                        env,
                        "svgdx",
                        ChildSpec {
                            args,
                            stdin: stdin_data,
                            cwd: &dir,
                            entropy: Some(scn.entropy),
                            fake_time_ns: Some(scn.clock_ns),
                            env: vec![],
                            env_remove: vec![],
                            timeout: Duration::from_secs(8),
                            // (a third of the stdin -> stdout runs write to a full device: the
                            // command must report that, not die of it)
                            stdout_to: if k == "cli-proc-stdin" && scn.entropy % 3 == 1 { full_device(env) } else { None },
                            stdin_file: None,
                            // (and a fifth of the runs cannot write their diagnostics)
                            stderr_to: if scn.entropy % 5 == 2 { full_device(env) } else { None },
                        },
                    );
                    if scn.entropy % 5 == 2 {
                        res.stats.fault("fs.stderr-dev-full");
                    }
                    if k == "cli-proc-stdin" && scn.entropy % 3 == 1 {
                        res.stats.fault("fs.stdout-dev-full");
                    }
                    let cr = match cr {
                        Ok(c) => c,
                        Err(e) => {
                            res.harness_error = Some(e);
                            return res;
                        }
                    };
                    res.stats.evaluations += 1;
                    res.stats.frontend(k);
                    let stderr = String::from_utf8_lossy(&cr.stderr).into_owned();
                    if cr.timed_out {
                        res.stats.outcome("hang");
                        res.violation(
                            "liveness/child-timeout",
                            &format!("c01:hang:{cls}"),
                            format!("svgdx child did not finish within 8 s; input class {}", scn.label),
                        );
                    } else if let Some(sig) = cr.signal {
                        res.stats.outcome("abort");
                        res.violation(
                            "totality/process-abort",
                            &format!("c01:abort:{cls}"),
                            format!("svgdx child killed by signal {sig}; stderr: {}", shorten(&stderr, 300)),
                        );
                    } else if cr.code == Some(101) || stderr.contains("panicked at") {
                        res.stats.outcome("panic");
                        let site = stderr
                            .split("panicked at ")
                            .nth(1)
                            .map(|s| s.split(':').take(2).collect::<Vec<_>>().join(":"))
                            .unwrap_or_else(|| "?".into());
                        let site = site.rsplit("/src/").next().unwrap_or(&site).to_string();
                        res.violation(
                            "totality/panic",
                            &format!("c01:panic:{site}"),
                            format!("svgdx child panicked (exit {:?}): {}", cr.code, shorten(&stderr, 400)),
                        );
                    } else {
                        match cr.code {
                            Some(0) => {
                                res.stats.outcome("ok");
                                classes.push("ok".into());
                            }
                            // any non-zero status is "an error" (101 = Rust panic is handled above)
                            Some(c) if c != 0 && c != 101 => {
                                res.stats.outcome("err");
                                classes.push("err".into());
                                if stderr.trim().is_empty() && scn.entropy % 5 != 2 {
                                    res.violation(
                                        "totality/silent-failure",
                                        "c01:child-silent-failure",
                                        format!("svgdx child exited {c} with an empty stderr; input class {}", scn.label),
                                    );
                                }
                            }
                            other => {
                                res.stats.outcome("other");
                                res.violation(
                                    "totality/exit-status",
                                    &format!("c01:exit-status:{other:?}"),
                                    format!("svgdx child exited with {other:?}; stderr: {}", shorten(&stderr, 300)),
                                );
                            }
                        }
                    }
                }
                "server-proc" => {
                    // end-to-end: real svgdx-server child, raw HTTP/1.1 over loopback
                    let k: u16 = env
                        .scratch
                        .file_name()
                        .and_then(|n| n.to_str())
                        .and_then(|n| n.trim_start_matches('w').parse().ok())
                        .unwrap_or(0);
                    let mut guard = SERVER.lock().unwrap();
                    if guard.as_mut().map(|s| !s.alive()).unwrap_or(true) {
                        *guard = None;
                        match ServerChild::start(env, server_port()) {
                            Ok(s) => *guard = Some(s),
                            Err(_) => {
                                res.stats.probe("server_proc_unavailable");
                                continue;
                            }
                        }
                    }
                    let srv = guard.as_mut().unwrap();
                    // (two of three requests go on the wire in an unusual but valid way: other
                    // Content-Types, none, non-ASCII parameters, the body in several pieces)
                    let am = if scn.cfg.add_metadata { Some(true) } else { None };
                    let mut r = srv.post(&scn.doc.0, am, Duration::from_secs(8));
                    // and in every wire style (all Content-Types, body whole and in pieces): each
                    // must be answered too
                    if r.is_some() && scn.doc.0.len() < 100_000 {
                        let port = srv.port;
                        res.stats.probe("request_repeated_in_every_wire_style");
                        if http_post_sweep(port, &scn.doc.0, am, Duration::from_secs(8)).iter().any(|x| x.is_none()) {
                            r = None;
                        }
                    }
                    res.stats.evaluations += 1;
                    res.stats.frontend("server-proc");
                    match r {
                        Some(h) => {
                            res.stats.outcome(if h.status == 200 { "ok" } else { "err" });
                            if !(h.status / 100 == 2 || h.status / 100 == 4) {
                                res.violation(
                                    "totality/http-status",
                                    &format!("c01:http-status:{}", h.status),
                                    format!("svgdx-server answered {} for input class {}", h.status, scn.label),
                                );
                            }
                        }
                        None => {
                            res.stats.outcome("no-response");
                            let alive = srv.alive();
                            res.violation(
                                "totality/server-no-response",
                                &format!("c01:server-no-response:{}:{cls}", if alive { "alive" } else { "died" }),
                                format!("svgdx-server gave no HTTP response (server process {}); input class {}", if alive { "alive" } else { "died" }, scn.label),
                            );
                        }
                    }
                    // and it must still serve a trivial request afterwards
                    if !srv.alive() {
                        *guard = None;
                    } else {
                        let t = srv.post(b"<svg><rect wh=\"1\"/></svg>", None, Duration::from_secs(8));
                        if t.map(|h| h.status) != Some(200) {
                            res.violation(
                                "liveness/server-unresponsive-after",
                                &format!("c01:server-unresponsive-after:{cls}"),
                                format!("svgdx-server did not answer a trivial request after input class {}", scn.label),
                            );
                            *guard = None;
                        } else {
                            res.stats.probe("server_answers_after_hostile_request");
                        }
                    }
                }
                other => {
                    res.harness_error = Some(format!("unknown front-end {other}"));
                    return res;
                }
            }
        }
        let _ = std::fs::remove_dir_all(&run_dir);
        res.stats.steps = total_steps;
        classes.sort();
        classes.dedup();
        res.stats.fingerprint = rng::mix(
            rng::hash_bytes(&scn.doc.0),
            rng::hash_str(&format!("{:?}{:?}{:?}", scn.rplan, scn.wplan, classes)),
        );
        res.stats.nontrivial = !res.stats.faults.is_empty() || cls != "feature";
        res
    }

    fn shrink(&self, scenario: &Value) -> Vec<Value> {
        let scn: Scn = match serde_json::from_value(scenario.clone()) {
            Ok(s) => s,
            Err(_) => return vec![],
        };
        let mut out: Vec<Scn> = Vec::new();
        // fewer front-ends
        if scn.frontends.len() > 1 {
            for i in 0..scn.frontends.len() {
                let mut s = scn.clone();
                s.frontends = vec![scn.frontends[i].clone()];
                out.push(s);
            }
        }
        if scn.rplan != ReadPlan::default() || scn.wplan != WritePlan::default() {
            let mut s = scn.clone();
            s.rplan = ReadPlan::default();
            s.wplan = WritePlan::default();
            out.push(s);
            let mut s = scn.clone();
            s.rplan = ReadPlan::default();
            out.push(s);
            let mut s = scn.clone();
            s.wplan = WritePlan::default();
            out.push(s);
            if !scn.rplan.eintr_calls.is_empty() || !scn.rplan.chunks.is_empty() {
                let mut s = scn.clone();
                s.rplan.eintr_calls.clear();
                s.rplan.chunks.clear();
                out.push(s);
            }
            if !scn.wplan.eintr_calls.is_empty() || !scn.wplan.accepts.is_empty() {
                let mut s = scn.clone();
                s.wplan.eintr_calls.clear();
                s.wplan.accepts.clear();
                out.push(s);
            }
        }
        if scn.cfg != Cfg::default() {
            let mut s = scn.clone();
            s.cfg = Cfg::default();
            out.push(s);
        }
        // document: for huge inputs try coarse halving first
        let d = &scn.doc.0;
        if d.len() > 4096 {
            for c in xmltree::byte_chunks(d).into_iter().take(12) {
                let mut s = scn.clone();
                s.doc = Doc(c);
                out.push(s);
            }
            // nested shapes: remove matching outer/inner layers
            if let Ok(t) = std::str::from_utf8(d) {
                for (o, c) in [("(", ")"), ("<g>", "</g>"), ("abs(", ")"), ("<a>", "</a>")] {
                    let no = t.matches(o).count();
                    if no > 8 && t.matches(c).count() >= no {
                        // halve the nesting
                        let keep = no / 2;
                        let first = t.find(o).unwrap();
                        let inner_start = first + o.len() * no;
                        if t[first..].starts_with(&o.repeat(no)) {
                            let rest = &t[inner_start..];
                            if let Some(cp) = rest.find(&c.repeat(no)) {
                                let cand = format!("{}{}{}{}{}", &t[..first], o.repeat(keep), &rest[..cp], c.repeat(keep), &rest[cp + c.len() * no..]);
                                let mut s = scn.clone();
                                s.doc = Doc(cand.into_bytes());
                                out.push(s);
                            }
                        }
                    }
                }
                if t.contains("-----") {
                    let n = t.matches('-').count();
                    let cand = t.replacen(&"-".repeat(n), &"-".repeat(n / 2), 1);
                    let mut s = scn.clone();
                    s.doc = Doc(cand.into_bytes());
                    out.push(s);
                }
            }
        } else {
            for c in xmltree::shrink_candidates(d).into_iter().take(150) {
                let mut s = scn.clone();
                s.doc = Doc(c);
                out.push(s);
            }
            if d.len() <= 400 {
                for c in xmltree::byte_chunks(d).into_iter().take(60) {
                    let mut s = scn.clone();
                    s.doc = Doc(c);
                    out.push(s);
                }
            }
        }
        out.into_iter().map(|s| serde_json::to_value(s).unwrap()).collect()
    }

    fn rule(&self) -> &'static str {
        "run = one hostile / corrupted / fuzzed document (32 shape generators: expression and XML nesting knobs up to 2e5, reuse recursion, use chains, path data, long attributes, non-UTF-8 bytes at 24 syntactic positions x 9 byte sequences, corrupted corpus documents, attribute fuzz from a 250-entry dictionary, config fuzz, loop shapes, XML oddities) x a configuration with limits <= defaults x a stream fault plan (chunking, EINTR, short writes, Ok(0), hard read/write errors) driven through up to 6 front-ends on 2 MiB or 8 MiB simulated threads; step budget 3e6 element evaluations, CPU budget 12 s, process aborts contained by the driver; distinct by (document, fault plans, outcome classes); non-trivial = a fault fired or the document is from a hostile shape class"
    }
    fn components_real(&self) -> Vec<&'static str> {
        vec![
            "svgdx library: transform_str, transform_stream",
            "quick-xml reader over the simulated BufRead",
            "cli::Config::from_cmdline + cli::run + transform_file on the real file system (tempfile)",
            "axum Router + extractors + handler (in-process, no socket)",
            "real svgdx binary as child process (file and stdin)",
            "thorough: real svgdx-server child over loopback TCP (hyper, tokio runtime)",
        ]
    }
    fn components_stub(&self) -> Vec<&'static str> {
        vec![
            "byte streams of the stream API (SimReader/SimWriter with fault plans)",
            "HTTP transport below the Router in in-process mode",
            "--watch mode, webbrowser, terminal stdin: never entered",
        ]
    }
    fn assumptions(&self) -> Vec<&'static str> {
        vec![
            "'for every byte sequence' is sampled by structured generators and corruption of real documents, not enumerated",
            "liveness = 3e6 element evaluations (deterministic) or 12 s CPU (coarse net for loops that never reach a yield point); generators cap explicit work at 5e4 element x iteration",
            "svgdx never calls flush() on the writer, so a flush fault never fires (reported under fault_fired as absent)",
        ]
    }
}
