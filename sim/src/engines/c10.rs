//! C10 — forward references: geometry independent of the evaluation schedule.
//!
//! There are no threads here. The *schedule* is the order in which the retry work-list
//! of svgdx first meets the siblings (= document order), the *fault* is "reference not
//! resolvable yet", the *recovery* is the retry pass. The engine runs one reference DAG
//! under every sibling order (all n! for n <= 5, seeded sample above) and demands the
//! same geometry per id as under the forward-reference-free order.

use crate::core::*;
use crate::frontends::*;
use crate::rng::{self, Rng};
use crate::xmltree::{self, Node};
use serde::{Deserialize, Serialize};
use serde_json::Value;
use std::collections::BTreeMap;

pub struct C10;

#[derive(Serialize, Deserialize, Clone, Debug, PartialEq)]
pub struct NodeSpec {
    pub id: String,
    pub kind: String,
    pub xml: String,
    pub deps: Vec<usize>,
}

#[derive(Serialize, Deserialize, Clone, Debug, PartialEq)]
pub struct Scn {
    pub nodes: Vec<NodeSpec>,
    /// None = satisfiable; Some(reason) = must fail under every order
    pub unsat: Option<String>,
    pub perm_seed: u64,
    /// explicit orders (set by the minimiser); None = all n! (n <= 5) or 64 seeded ones
    #[serde(default)]
    pub orders: Option<Vec<Vec<usize>>>,
    /// all n! orders are run for n up to this bound (5 quick, 6 thorough)
    #[serde(default = "five")]
    pub exhaustive_upto: usize,
    /// a <defaults> block ahead of the siblings adds offsets to rects and circles
    #[serde(default)]
    pub defaults: bool,
    /// also feed the orders to ONE `svgdx --watch` process as successive saves of one file,
    /// with a save in between from which a referenced node is missing
    #[serde(default)]
    pub watch: bool,
    /// configuration (limits at or below their defaults but ample for the document;
    /// none of it may change geometry or make resolution depend on sibling order)
    #[serde(default)]
    pub cfg: Option<Cfg>,
}

fn five() -> usize {
    5
}

fn n(rng: &mut Rng, lo: i64, hi: i64) -> i64 {
    rng.range(lo, hi)
}

const LOCS: &[&str] = &["tl", "t", "tr", "r", "br", "b", "bl", "l", "c"];

fn abs_node(rng: &mut Rng, id: &str) -> (String, String) {
    let (x, y, w, h) = (n(rng, -30, 60), n(rng, -30, 60), n(rng, 2, 30), n(rng, 2, 30));
    match rng.below(10) {
        0 => ("abs-rect-long".into(), format!("<rect id=\"{id}\" x=\"{x}\" y=\"{y}\" width=\"{w}\" height=\"{h}\"/>")),
        1 => ("abs-rect-short".into(), format!("<rect id=\"{id}\" xy=\"{x} {y}\" wh=\"{w} {h}\"/>")),
        2 => ("abs-rect-cxy".into(), format!("<rect id=\"{id}\" cxy=\"{x} {y}\" wh=\"{w}\"/>")),
        3 => ("abs-circle-long".into(), format!("<circle id=\"{id}\" cx=\"{x}\" cy=\"{y}\" r=\"{w}\"/>")),
        4 => ("abs-circle-cxy".into(), format!("<circle id=\"{id}\" cxy=\"{x} {y}\" r=\"{w}\"/>")),
        5 => ("abs-ellipse".into(), format!("<ellipse id=\"{id}\" cxy=\"{x} {y}\" rxy=\"{w} {h}\"/>")),
        6 => (
            "abs-line".into(),
            format!("<line id=\"{id}\" xy1=\"{x} {y}\" xy2=\"{} {}\"/>", x + w, y + h),
        ),
        7 => (
            "abs-group".into(),
            format!(
                "<g id=\"{id}\"><rect x=\"{x}\" y=\"{y}\" width=\"{w}\" height=\"{h}\"/><circle cx=\"{}\" cy=\"{}\" r=\"{}\"/></g>",
                x + w,
                y + h,
                1 + h / 3
            ),
        ),
        8 => (
            "abs-rect-text".into(),
            format!("<rect id=\"{id}\" xy=\"{x} {y}\" wh=\"{w} {h}\" text=\"{id}\"/>"),
        ),
        _ => (
            // ids generated inside a loop: {id}q0, {id}q1 (callers refer to {id}q1)
            "abs-loop-ids".into(),
            format!("<loop count=\"2\" loop-var=\"q\"><rect id=\"{id}q$q\" x=\"{{{{{x} + $q * 40}}}}\" y=\"{y}\" width=\"{w}\" height=\"{h}\"/></loop>"),
        ),
    }
}

/// A node positioned relative to one or two earlier nodes.
fn rel_node(rng: &mut Rng, id: &str, r: &str, r2: &str) -> (String, String, bool) {
    let (w, h, g) = (n(rng, 2, 20), n(rng, 2, 20), n(rng, 0, 8));
    let loc = *rng.pick(LOCS);
    let loc2 = *rng.pick(LOCS);
    let dir = *rng.pick(&["h", "H", "v", "V"]);
    // returns (kind, xml, uses_second_ref)
    match rng.below(54) {
        0 => ("rel-dir-wh".into(), format!("<rect id=\"{id}\" xy=\"#{r}|{dir} {g}\" wh=\"{w} {h}\"/>"), false),
        1 => (
            "rel-dir-longsize".into(),
            format!("<rect id=\"{id}\" xy=\"#{r}|{dir}\" width=\"{w}\" height=\"{h}\"/>"),
            false,
        ),
        2 => (
            "rel-loc-wh".into(),
            format!("<rect id=\"{id}\" xy=\"#{r}@{loc}\" wh=\"{w} {h}\"/>"),
            false,
        ),
        3 => (
            "rel-loc-xyloc".into(),
            format!("<rect id=\"{id}\" xy=\"#{r}@{loc}\" xy-loc=\"{loc2}\" width=\"{w}\" height=\"{h}\"/>"),
            false,
        ),
        4 => (
            "rel-cxy-loc-dxdy".into(),
            format!("<rect id=\"{id}\" cxy=\"#{r}@{loc} {} {}\" wh=\"{w}\"/>", n(rng, -5, 5), n(rng, -5, 5)),
            false,
        ),
        5 => ("rel-circle-cxy".into(), format!("<circle id=\"{id}\" cxy=\"#{r}@{loc}\" r=\"{w}\"/>"), false),
        6 => (
            "rel-scalar-xy".into(),
            format!("<rect id=\"{id}\" x=\"#{r}~x2\" y=\"#{r2}~y\" width=\"{w}\" height=\"{h}\"/>"),
            true,
        ),
        7 => (
            "rel-size-pct".into(),
            format!("<rect id=\"{id}\" xy=\"#{r}|{dir} {g}\" wh=\"#{r2} {}%\"/>", 25 * (1 + rng.below(6))),
            true,
        ),
        8 => (
            "rel-size-dwdh".into(),
            format!("<rect id=\"{id}\" xy=\"#{r}|{dir}\" wh=\"#{r}\" dw=\"{}\" dh=\"{}\"/>", n(rng, 0, 6), n(rng, -1, 6)),
            false,
        ),
        9 => (
            "rel-surround".into(),
            format!("<rect id=\"{id}\" surround=\"#{r} #{r2}\" margin=\"{g}\"/>"),
            true,
        ),
        10 => ("rel-surround-one".into(), format!("<rect id=\"{id}\" surround=\"#{r}\"/>"), false),
        11 => (
            "rel-inside".into(),
            format!("<rect id=\"{id}\" inside=\"#{r}\" margin=\"{}\"/>", rng.below(2)),
            false,
        ),
        12 => ("rel-connector".into(), format!("<line id=\"{id}\" start=\"#{r}\" end=\"#{r2}\"/>"), true),
        13 => (
            "rel-connector-loc".into(),
            format!("<line id=\"{id}\" start=\"#{r}@{loc}\" end=\"#{r2}@{loc2}\"/>"),
            true,
        ),
        14 => (
            "rel-connector-corner".into(),
            format!("<polyline id=\"{id}\" start=\"#{r}@b\" end=\"#{r2}@l\"/>"),
            true,
        ),
        15 => (
            "rel-expr".into(),
            format!("<rect id=\"{id}\" x=\"{{{{#{r}~x2 + {g}}}}}\" y=\"{{{{#{r2}~cy}}}}\" wh=\"{w} {h}\"/>"),
            true,
        ),
        16 => (
            "rel-expr-size".into(),
            format!("<rect id=\"{id}\" xy=\"{g} {g}\" width=\"{{{{#{r}~w + 1}}}}\" height=\"{{{{#{r2}~h * 2}}}}\"/>"),
            true,
        ),
        17 => ("rel-text".into(), format!("<text id=\"{id}\" xy=\"#{r}@{loc}\" text=\"{id}\"/>"), false),
        18 => (
            "rel-dir-text".into(),
            format!("<rect id=\"{id}\" xy=\"#{r}|{dir} {g}\" wh=\"{w} {h}\" text=\"{id}\"/>"),
            false,
        ),
        19 => (
            "rel-circle-dir".into(),
            format!("<circle id=\"{id}\" xy=\"#{r}|{dir} {g}\" r=\"{w}\"/>"),
            false,
        ),
        20 => (
            "rel-ellipse-cxy".into(),
            format!("<ellipse id=\"{id}\" cxy=\"#{r}@{loc}\" rx=\"{w}\" ry=\"{h}\"/>"),
            false,
        ),
        21 => (
            "rel-line-xy1xy2".into(),
            format!("<line id=\"{id}\" xy1=\"#{r}@{loc}\" xy2=\"#{r2}@{loc2}\"/>"),
            true,
        ),
        22 => (
            "rel-points".into(),
            format!("<polyline id=\"{id}\" points=\"#{r}@{loc} #{r2}@{loc2}\"/>"),
            true,
        ),
        23 => (
            "rel-path-d".into(),
            format!("<path id=\"{id}\" d=\"M #{r}@{loc} L #{r2}@{loc2}\"/>"),
            true,
        ),
        24 => (
            "rel-use".into(),
            format!("<use id=\"{id}\" href=\"#{r}\" xy=\"#{r2}|{dir} {g}\"/>"),
            true,
        ),
        25 => (
            "rel-group-child".into(),
            format!("<g id=\"{id}\"><rect xy=\"#{r}|{dir} {g}\" wh=\"{w} {h}\"/><circle cxy=\"#{r2}@{loc}\" r=\"1\"/></g>"),
            true,
        ),
        26 => (
            "rel-circle-foreign-xy".into(),
            format!("<circle id=\"{id}\" x=\"#{r}~x2\" y=\"{g}\" r=\"{w}\"/>"),
            false,
        ),
        27 => (
            "rel-rect-foreign-cxcy".into(),
            format!("<rect id=\"{id}\" cx=\"#{r}~x2\" cy=\"{{{{#{r2}~cy + {g}}}}}\" width=\"{w}\" height=\"{h}\"/>"),
            true,
        ),
        28 => (
            "rel-rect-foreign-x2y2".into(),
            format!("<rect id=\"{id}\" x2=\"#{r}~x\" y2=\"#{r2}~y\" wh=\"{w} {h}\"/>"),
            true,
        ),
        29 => (
            "rel-ellipse-foreign-xy".into(),
            format!("<ellipse id=\"{id}\" x=\"{{{{#{r}~x2 + {g}}}}}\" y=\"#{r2}~y2\" rx=\"{w}\" ry=\"{h}\"/>"),
            true,
        ),
        30 => (
            "rel-line-foreign".into(),
            format!("<line id=\"{id}\" x1=\"#{r}~x2\" y1=\"#{r}~cy\" width=\"{w}\" height=\"{h}\"/>"),
            false,
        ),
        31 => (
            "rel-dwdh-native".into(),
            format!("<rect id=\"{id}\" x=\"{g}\" y=\"{g}\" width=\"{w}\" height=\"{h}\" dw=\"{{{{#{r}~w}}}}\" dh=\"{{{{#{r2}~h}}}}\"/>"),
            true,
        ),
        32 => (
            // a block which updates its own variable while placing rows relative to r:
            // ids {id}r0..{id}r2, callers refer to the last row
            "rel-loop-accumulator".into(),
            format!("<var a{id}=\"{g}\"/><loop count=\"3\" loop-var=\"k{id}\"><rect id=\"{id}r$k{id}\" xy=\"#{r}|v {{{{$a{id}}}}}\" wh=\"{w} 3\"/><var a{id}=\"{{{{$a{id} + 8}}}}\"/></loop>"),
            false,
        ),
        33 => (
            // ids generated inside a block that itself needs a reference
            "rel-loop-ids".into(),
            format!("<loop count=\"2\" loop-var=\"q{id}\"><rect id=\"{id}r$q{id}\" xy=\"#{r}|h {{{{$q{id} * 9 + {g}}}}}\" wh=\"{w} {h}\"/></loop>"),
            false,
        ),
        34 => (
            "rel-if-block".into(),
            format!("<if test=\"{{{{#{r}~w + 1}}}}\"><rect id=\"{id}\" xy=\"#{r2}|{dir} {g}\" wh=\"{w} {h}\"/></if>"),
            true,
        ),
        35 => (
            "rel-for-block".into(),
            format!("<for data=\"3, 7\" var=\"z{id}\" idx-var=\"j{id}\"><rect id=\"{id}r$j{id}\" xy=\"#{r}|{dir} $z{id}\" wh=\"{w} {h}\"/></for>"),
            false,
        ),
        36 => (
            // positioned through x/y although the element type has no such attributes
            "rel-polyline-xy".into(),
            format!("<polyline id=\"{id}\" points=\"0 0 {w} {h}\" x=\"#{r}~x2\" y=\"{g}\"/>"),
            false,
        ),
        37 => (
            "rel-path-xy".into(),
            format!("<path id=\"{id}\" d=\"M 0 0 h {w} v {h} z\" x=\"{{{{#{r}~x + {g}}}}}\" y=\"#{r2}~y2\"/>"),
            true,
        ),
        38 => (
            // the element's extent depends on a clip path written after it
            "rel-clipped".into(),
            format!("<rect id=\"{id}\" xy=\"{g} {g}\" wh=\"40 30\" clip-path=\"url(#cp{id})\"/><clipPath id=\"cp{id}\"><rect xy=\"#{r}@{loc}\" wh=\"{w} {h}\"/></clipPath>"),
            false,
        ),
        39 => (
            "rel-use-centered".into(),
            format!("<use id=\"{id}\" href=\"#{r}\" cxy=\"{w} {h}\"/>"),
            false,
        ),
        40 => (
            "rel-reuse-centered".into(),
            format!("<reuse id=\"{id}\" href=\"#{r}\" cxy=\"{w} {h}\"/>"),
            false,
        ),
        41 => (
            // '^' right after an element that may have to wait: lexically it is that element
            "rel-prev-after-waiting".into(),
            format!("<rect id=\"{id}p\" xy=\"#{r}|{dir} {g}\" wh=\"{w} {h}\"/><rect id=\"{id}\" xy=\"^|h 1\" wh=\"{w}\"/>"),
            false,
        ),
        42 => (
            // '^' in an element that itself may have to wait (its size refers to r)
            "rel-prev-in-waiting".into(),
            format!("<rect id=\"{id}p\" xy=\"{g} {w}\" wh=\"{h}\"/><rect id=\"{id}\" xy=\"^|{dir} {g}\" wh=\"#{r}\"/>"),
            false,
        ),
        43 => (
            "rel-prev-in-group".into(),
            format!("<g id=\"{id}\"><rect xy=\"{g} {h}\" wh=\"{w}\"/><rect xy=\"^|{dir}\" wh=\"#{r}\"/><circle cxy=\"^@{loc}\" r=\"2\"/></g>"),
            false,
        ),
        44 => (
            // the element before the '^' user is a group whose content waits
            "rel-prev-after-waiting-group".into(),
            format!("<g id=\"{id}p\"><rect xy=\"#{r}@{loc}\" wh=\"{w} {h}\"/></g><rect id=\"{id}\" xy=\"^|{dir} {g}\" wh=\"{h}\"/>"),
            false,
        ),
        45 => (
            // '^' after a control element whose own attribute has to wait
            "rel-prev-after-waiting-if".into(),
            format!("<if test=\"{{{{#{r}~w + 1}}}}\"><rect id=\"{id}p\" xy=\"{g} {w}\" wh=\"{h}\"/></if><rect id=\"{id}\" xy=\"^|{dir} {g}\" wh=\"{w}\"/>"),
            false,
        ),
        46 => (
            "rel-prev-after-waiting-loop".into(),
            format!("<loop count=\"{{{{1 + 0 * #{r}~h}}}}\"><rect id=\"{id}p\" xy=\"{w} {g}\" wh=\"{h}\"/></loop><rect id=\"{id}\" xy=\"^|{dir} {g}\" wh=\"{w}\"/>"),
            false,
        ),
        47 => (
            "rel-prev-after-waiting-for".into(),
            format!("<for data=\"{{{{#{r}~w}}}}, {g}\" var=\"z{id}\" idx-var=\"j{id}\"><rect id=\"{id}p$j{id}\" xy=\"{w} {{{{$j{id} * 9}}}}\" wh=\"{h}\"/></for><circle id=\"{id}\" cxy=\"^@{loc}\" r=\"2\"/>"),
            false,
        ),
        48 => (
            // a reuse anchored by its far edge / centre, which needs the target's size
            "rel-reuse-x2".into(),
            format!("<reuse id=\"{id}\" href=\"#tpl\" x2=\"#{r}~x\" y=\"{g}\"/>"),
            false,
        ),
        49 => (
            "rel-reuse-cx".into(),
            format!("<reuse id=\"{id}\" href=\"#tpl\" cx=\"#{r}~cx\" cy=\"{{{{#{r2}~y2 + {g}}}}}\"/>"),
            true,
        ),
        50 => (
            // content of a never-rendered container refers to another node too
            "rel-with-points-in-defs".into(),
            format!("<defs><polyline id=\"{id}d\" points=\"0 0 #{r}@{loc} {w} {h}\"/></defs><rect id=\"{id}\" xy=\"#{r}|{dir} {g}\" wh=\"{w} {h}\"/>"),
            false,
        ),
        51 => (
            "rel-with-points-in-marker".into(),
            format!("<marker id=\"{id}m\"><polygon id=\"{id}d\" points=\"#{r}@{loc2} 1 1 #{r2}@{loc}\"/></marker><circle id=\"{id}\" cxy=\"#{r}@{loc}\" r=\"{w}\"/>"),
            true,
        ),
        52 => (
            "rel-with-points-in-pattern".into(),
            format!("<pattern id=\"{id}m\"><polyline id=\"{id}d\" points=\"#{r}~x2 #{r}~y2 3 4\"/></pattern><mask id=\"{id}k\"><polyline id=\"{id}e\" points=\"1 2 #{r}@{loc}\"/></mask><rect id=\"{id}\" xy=\"#{r}@{loc}\" wh=\"{w} {h}\"/>"),
            false,
        ),
        _ => (
            "rel-reuse".into(),
            format!("<reuse id=\"{id}\" href=\"#tpl\" xy=\"#{r}|{dir} {g}\"/>"),
            false,
        ),
    }
}

fn rel_node_plain(id: &str, r: &str, rng: &mut Rng) -> (String, String) {
    let (w, h, g) = (n(rng, 2, 20), n(rng, 2, 20), n(rng, 0, 8));
    ("rel-dir-wh".into(), format!("<rect id=\"{id}\" xy=\"#{r}|h {g}\" wh=\"{w} {h}\"/>"))
}

fn perms(nn: usize) -> Vec<Vec<usize>> {
    fn rec(cur: &mut Vec<usize>, used: &mut Vec<bool>, out: &mut Vec<Vec<usize>>) {
        if cur.len() == used.len() {
            out.push(cur.clone());
            return;
        }
        for i in 0..used.len() {
            if !used[i] {
                used[i] = true;
                cur.push(i);
                rec(cur, used, out);
                cur.pop();
                used[i] = false;
            }
        }
    }
    let mut out = Vec::new();
    rec(&mut Vec::new(), &mut vec![false; nn], &mut out);
    out
}

pub fn orders_of(scn: &Scn) -> (Vec<Vec<usize>>, bool) {
    let nn = scn.nodes.len();
    if let Some(o) = &scn.orders {
        let mut v = vec![(0..nn).collect::<Vec<_>>()];
        for p in o {
            let mut q: Vec<usize> = p.iter().copied().filter(|i| *i < nn).collect();
            // repair after node removal: keep it a permutation
            let mut seen = vec![false; nn];
            q.retain(|i| {
                let s = seen[*i];
                seen[*i] = true;
                !s
            });
            for i in 0..nn {
                if !seen[i] {
                    q.push(i);
                }
            }
            v.push(q);
        }
        return (v, false);
    }
    if nn <= scn.exhaustive_upto {
        (perms(nn), true)
    } else {
        let mut rng = Rng::sub(scn.perm_seed, "orders");
        let mut v = vec![(0..nn).collect::<Vec<_>>(), (0..nn).rev().collect::<Vec<_>>()];
        for _ in 0..62 {
            let mut p: Vec<usize> = (0..nn).collect();
            rng.shuffle(&mut p);
            v.push(p);
        }
        (v, false)
    }
}

pub fn render_doc(scn: &Scn, order: &[usize]) -> String {
    let mut s = String::from("<svg>\n");
    // an inert sibling which comes first in the order is the very first child of the root
    let lead = order.first().filter(|i| scn.nodes[**i].kind == "aux-inert").copied();
    if let Some(i) = lead {
        s.push_str("  ");
        s.push_str(&scn.nodes[i].xml);
        s.push('\n');
    }
    s.push_str("  <specs><rect id=\"tpl\" wh=\"3 2\"/></specs><var k=\"7\"/>\n");
    if scn.defaults {
        s.push_str("  <defaults><rect dx=\"3\"/><circle dy=\"2\"/><_ match=\"ellipse line\" dxy=\"1 -1\"/></defaults>\n");
    }
    for i in order {
        if Some(*i) == lead {
            continue;
        }
        s.push_str("  ");
        s.push_str(&scn.nodes[*i].xml);
        s.push('\n');
    }
    s.push_str("</svg>\n");
    s
}

const GEOM: &[&str] = &[
    "x", "y", "width", "height", "cx", "cy", "r", "rx", "ry", "x1", "y1", "x2", "y2", "points", "d", "transform",
];

/// geometry per key: id-elements by id; other elements by (owner id, ordinal after owner)
pub fn geometry(out: &str) -> Option<BTreeMap<String, (String, Vec<(String, String)>)>> {
    let tree = xmltree::parse(out)?;
    let mut map = BTreeMap::new();
    fn visit(nodes: &[Node], owner: &str, map: &mut BTreeMap<String, (String, Vec<(String, String)>)>) {
        let mut cur_owner = owner.to_string();
        let mut ord = 0;
        for nd in nodes {
            if let Node::Elem { name, attrs, children, .. } = nd {
                if name == "style" || name == "defs" {
                    continue;
                }
                if name == "svg" && owner.is_empty() {
                    // what the root extent should BE is C08's business; that it is the same
                    // under every sibling order is this property's
                    let g: Vec<(String, String)> = attrs.iter().filter(|(k, _)| ["viewBox", "width", "height"].contains(&k.as_str())).cloned().collect();
                    map.insert("#<root>".to_string(), (name.clone(), g));
                    visit(children, "", map);
                    continue;
                }
                let g: Vec<(String, String)> = attrs.iter().filter(|(k, _)| GEOM.contains(&k.as_str())).cloned().collect();
                let key = if let Some(id) = nd.attr("id") {
                    cur_owner = id.to_string();
                    ord = 0;
                    format!("#{id}")
                } else {
                    ord += 1;
                    format!("#{cur_owner}+{ord}:{name}")
                };
                let text = if name == "text" || name == "tspan" { nd.text() } else { String::new() };
                let mut g = g;
                if !text.is_empty() {
                    g.push(("#text".into(), text));
                }
                map.insert(key.clone(), (name.clone(), g));
                visit(children, &key, map);
            }
        }
    }
    visit(&tree, "", &mut map);
    Some(map)
}

fn nums(s: &str) -> Option<Vec<f64>> {
    let mut v = Vec::new();
    for t in s.split(|c: char| c == ' ' || c == ',' || c == '(' || c == ')') {
        if t.is_empty() {
            continue;
        }
        match t.parse::<f64>() {
            Ok(x) => v.push(x),
            Err(_) => {
                // path commands / transform names: compare as text via NaN marker list
                return None;
            }
        }
    }
    Some(v)
}

fn attr_close(a: &str, b: &str) -> bool {
    if a == b {
        return true;
    }
    // tokenise: numbers compared with tolerance, words exactly
    let ta: Vec<&str> = a.split(|c: char| c == ' ' || c == ',').filter(|t| !t.is_empty()).collect();
    let tb: Vec<&str> = b.split(|c: char| c == ' ' || c == ',').filter(|t| !t.is_empty()).collect();
    if ta.len() != tb.len() {
        return false;
    }
    for (x, y) in ta.iter().zip(tb.iter()) {
        if x == y {
            continue;
        }
        match (nums(x), nums(y)) {
            (Some(p), Some(q)) if p.len() == q.len() => {
                if p.iter().zip(q.iter()).any(|(u, v)| (u - v).abs() > 2e-3) {
                    return false;
                }
            }
            _ => return false,
        }
    }
    true
}

impl Engine for C10 {
    fn id(&self) -> &'static str {
        "C10"
    }
    fn runs(&self, tier: Tier) -> u64 {
        match tier {
            Tier::Quick => 1200,
            Tier::Thorough => 60000,
        }
    }

    fn generate(&self, seed: u64, index: u64, tier: Tier, _env: &WorkerEnv) -> Value {
        let rs = rng::run_seed(seed, "C10", index);
        let mut w = Rng::sub(rs, "workload");
        let nn = match w.below(10) {
            0..=1 => 2,
            2..=4 => 3,
            5..=6 => 4,
            7 => 5,
            8 => 6,
            _ => 7 + w.usize(2),
        };
        let mut nodes: Vec<NodeSpec> = Vec::new();
        let n_abs = 1 + w.usize(2.min(nn - 1).max(1));
        for i in 0..nn {
            let id = format!("n{i}");
            if i < n_abs {
                let (kind, xml) = abs_node(&mut w, &id);
                let id = if kind == "abs-loop-ids" { format!("{id}q1") } else { id };
                nodes.push(NodeSpec { id, kind, xml, deps: vec![] });
            } else {
                // bias towards chains: the most recent node is the likeliest target
                let d1 = if w.chance(1, 2) { i - 1 } else { w.usize(i) };
                let d2 = w.usize(i);
                let (mut kind, mut xml, mut two) = rel_node(&mut w, &id, &nodes[d1].id.clone(), &nodes[d2].id.clone());
                // a <use>/<reuse> OF a clipped element is not generated: svgdx's notion of the
                // extent of such an instance differs between its own code paths (observed, see
                // DESIGN.md §9.3), which is about clipping, not about forward references
                let centered_on_instance = kind.contains("centered") && (nodes[d1].kind.contains("use") || nodes[d1].kind.contains("clipped"));
                // <reuse> re-evaluates the target's attributes at the reuse site: a '^' in the
                // target then names whatever precedes the <reuse>, which no longer stays inside
                // one node (and legitimately depends on the sibling order)
                let reuse_of_prev_user = kind.contains("reuse") && (nodes[d1].kind.contains("rel-prev") || nodes[d2].kind.contains("rel-prev"));
                if centered_on_instance || reuse_of_prev_user || (kind.contains("use") && (nodes[d1].kind.starts_with("rel-clipped") || nodes[d2].kind.starts_with("rel-clipped"))) {
                    let r = rel_node_plain(&id, &nodes[d1].id.clone(), &mut w);
                    kind = r.0;
                    xml = r.1;
                    two = false;
                }
                let mut deps = vec![d1];
                if two && d2 != d1 {
                    deps.push(d2);
                }
                // blocks generate their ids: later nodes refer to the last one
                let id = match kind.as_str() {
                    "rel-loop-accumulator" => format!("{id}r2"),
                    "rel-loop-ids" | "rel-for-block" => format!("{id}r1"),
                    _ => id,
                };
                // every 6th relative node has an id computed at evaluation time
                let (id, kind, xml) = if w.chance(1, 6) && xml.contains(&format!("id=\"{id}\"")) {
                    (
                        format!("{id}v7"),
                        format!("{kind}+computed-id"),
                        xml.replacen(&format!("id=\"{id}\""), &format!("id=\"{id}v$k\""), 1),
                    )
                } else {
                    (id, kind, xml)
                };
                nodes.push(NodeSpec { id, kind, xml, deps });
            }
        }
        // one scenario in five ends with a clip path as a sibling of its own: a <clipPath>, a
        // group holding a group clipped by it (the clip region is smaller than the content),
        // and an element placed against the OUTER group - no other node refers to the three
        if w.chance(1, 5) {
            let base = nodes.len();
            let (cx, cy, cw, ch) = (n(&mut w, -10, 20), n(&mut w, -10, 20), n(&mut w, 3, 12), n(&mut w, 3, 12));
            let loc = *w.pick(LOCS);
            let dir = *w.pick(&["h", "H", "v", "V"]);
            let anchor = nodes[w.usize(base)].id.clone();
            let clip_rect = if w.chance(1, 2) {
                format!("<rect xy=\"{cx} {cy}\" wh=\"{cw} {ch}\"/>")
            } else {
                // the clip region itself is placed against another node
                format!("<rect xy=\"#{anchor}@{loc}\" wh=\"{cw} {ch}\"/>")
            };
            let clip_deps: Vec<usize> = if clip_rect.contains('#') { vec![nodes.iter().position(|x| x.id == anchor).unwrap()] } else { vec![] };
            nodes.push(NodeSpec {
                id: format!("cp{base}"),
                kind: "aux-clippath".into(),
                xml: format!("<clipPath id=\"cp{base}\">{clip_rect}</clipPath>"),
                deps: clip_deps,
            });
            nodes.push(NodeSpec {
                id: format!("n{}", base + 1),
                kind: "rel-group-of-clipped-group".into(),
                xml: format!(
                    "<g id=\"n{}\"><g clip-path=\"url(#cp{base})\"><rect xy=\"{} {}\" wh=\"90 70\"/></g></g>",
                    base + 1,
                    cx - 5,
                    cy - 5
                ),
                deps: vec![base],
            });
            nodes.push(NodeSpec {
                id: format!("n{}", base + 2),
                kind: "rel-dir-wh".into(),
                xml: format!("<rect id=\"n{}\" xy=\"#n{}|{dir} 2\" wh=\"3 4\"/>", base + 2, base + 1),
                deps: vec![base + 1],
            });
        }
        // another motif, one scenario in six: a group (outside <specs>) whose content waits for
        // another node, a <reuse> of that group anchored by its centre or far corner (which
        // needs the group's size), and an element placed against the instance
        if w.chance(1, 6) {
            let base = nodes.len();
            let anchor = nodes[w.usize(base)].id.clone();
            let ai = nodes.iter().position(|x| x.id == anchor).unwrap();
            let loc = *w.pick(LOCS);
            let (gw, gh) = (n(&mut w, 3, 14), n(&mut w, 3, 14));
            nodes.push(NodeSpec {
                id: format!("n{base}"),
                kind: "rel-group-child".into(),
                xml: format!("<g id=\"n{base}\"><rect xy=\"#{anchor}@{loc}\" wh=\"{gw} {gh}\"/><circle cxy=\"^@br\" r=\"2\"/></g>"),
                deps: vec![ai],
            });
            let how = match w.below(3) {
                0 => format!("cx=\"{}\" cy=\"{}\"", n(&mut w, 20, 60), n(&mut w, 20, 60)),
                1 => format!("x2=\"{}\" y2=\"{}\"", n(&mut w, 20, 60), n(&mut w, 20, 60)),
                _ => format!("cxy=\"{} {}\"", n(&mut w, 20, 60), n(&mut w, 20, 60)),
            };
            nodes.push(NodeSpec {
                id: format!("n{}", base + 1),
                kind: "rel-reuse-of-waiting-group".into(),
                xml: format!("<reuse id=\"n{}\" href=\"#n{base}\" {how}/>", base + 1),
                deps: vec![base],
            });
            nodes.push(NodeSpec {
                id: format!("n{}", base + 2),
                kind: "rel-dir-wh".into(),
                xml: format!("<rect id=\"n{}\" xy=\"#n{}|h 3\" wh=\"2 5\"/>", base + 2, base + 1),
                deps: vec![base + 1],
            });
        }
        // one scenario in four has an inert sibling (content svgdx has nothing to do with): it
        // may come first, last or anywhere between like any other sibling
        if w.chance(1, 4) {
            let base = nodes.len();
            let xml = match w.below(6) {
                0 => format!("<desc id=\"inert{base}\" xmlns=\"http://www.w3.org/1999/xhtml\">a <b>description</b></desc>"),
                1 => format!("<title id=\"inert{base}\">t</title>"),
                2 => format!("<metadata id=\"inert{base}\"><r xmlns=\"urn:example:rdf\"><d about=\"x\"/></r></metadata>"),
                3 => "<!-- a comment -->".to_string(),
                4 => "<style>.q { fill: red; }</style>".to_string(),
                _ => format!("<foreignObject id=\"inert{base}\" x=\"0\" y=\"0\" width=\"5\" height=\"5\"><div xmlns=\"http://www.w3.org/1999/xhtml\">h</div></foreignObject>"),
            };
            nodes.push(NodeSpec {
                id: format!("inert{base}"),
                kind: "aux-inert".into(),
                xml,
                deps: vec![],
            });
        }
        let nn = nodes.len();
        let mut unsat = None;
        if index % 5 == 4 {
            // unsatisfiable variants
            match w.below(6) {
                0 => {
                    // unknown id
                    let i = nn - 1;
                    let id = nodes[i].id.clone();
                    nodes[i] = NodeSpec {
                        id: id.clone(),
                        kind: "rel-unknown".into(),
                        xml: format!("<rect id=\"{id}\" xy=\"#zz{}|h\" wh=\"3\"/>", w.below(3)),
                        deps: vec![],
                    };
                    unsat = Some("unknown-id".to_string());
                }
                1 if nn >= 2 => {
                    let (a, b) = (nn - 2, nn - 1);
                    let (ia, ib) = (nodes[a].id.clone(), nodes[b].id.clone());
                    nodes[a] = NodeSpec {
                        id: ia.clone(),
                        kind: "cycle".into(),
                        xml: format!("<rect id=\"{ia}\" xy=\"#{ib}|h\" wh=\"4\"/>"),
                        deps: vec![b],
                    };
                    nodes[b] = NodeSpec {
                        id: ib.clone(),
                        kind: "cycle".into(),
                        xml: format!("<rect id=\"{ib}\" xy=\"#{ia}|v\" width=\"3\" height=\"3\"/>"),
                        deps: vec![a],
                    };
                    unsat = Some("cycle-2".to_string());
                }
                2 if nn >= 3 => {
                    let (a, b, c) = (nn - 3, nn - 2, nn - 1);
                    let (ia, ib, ic) = (nodes[a].id.clone(), nodes[b].id.clone(), nodes[c].id.clone());
                    nodes[a] = NodeSpec {
                        id: ia.clone(),
                        kind: "cycle".into(),
                        xml: format!("<rect id=\"{ia}\" xy=\"#{ib}@br\" width=\"4\" height=\"2\"/>"),
                        deps: vec![b],
                    };
                    nodes[b] = NodeSpec {
                        id: ib.clone(),
                        kind: "cycle".into(),
                        xml: format!("<circle id=\"{ib}\" cxy=\"#{ic}@t\" r=\"3\"/>"),
                        deps: vec![c],
                    };
                    nodes[c] = NodeSpec {
                        id: ic.clone(),
                        kind: "cycle".into(),
                        xml: format!("<rect id=\"{ic}\" x=\"#{ia}~x2\" y=\"1\" wh=\"3\"/>"),
                        deps: vec![a],
                    };
                    unsat = Some("cycle-3".to_string());
                }
                5 => {
                    // a group clipped by a path that does not exist
                    let i = nn - 1;
                    let id = nodes[i].id.clone();
                    nodes[i] = NodeSpec {
                        id: id.clone(),
                        kind: "clip-unknown".into(),
                        xml: format!("<g id=\"{id}\"><g clip-path=\"url(#zz{})\"><rect xy=\"1 2\" wh=\"9 8\"/></g></g>", w.below(3)),
                        deps: vec![],
                    };
                    unsat = Some("clip-unknown-id".to_string());
                }
                3 => {
                    // self reference
                    let i = nn - 1;
                    let id = nodes[i].id.clone();
                    nodes[i] = NodeSpec {
                        id: id.clone(),
                        kind: "self-ref".into(),
                        xml: format!("<rect id=\"{id}\" xy=\"#{id}|h\" width=\"3\" height=\"3\"/>"),
                        deps: vec![],
                    };
                    unsat = Some("self-ref".to_string());
                }
                _ => {
                    // target without a bounding box
                    let id0 = nodes[0].id.clone();
                    let xml = match w.below(6) {
                        0 => format!("<g id=\"{id0}\"/>"),
                        1 => format!("<g id=\"{id0}\"></g>"),
                        2 => format!("<defs id=\"{id0}\"><rect wh=\"2\"/></defs>"),
                        // shapes without a size have no extent either
                        3 => format!("<rect id=\"{id0}\" x=\"30\" y=\"30\"/>"),
                        4 => format!("<circle id=\"{id0}\" cx=\"3\" cy=\"4\"/>"),
                        _ => format!("<ellipse id=\"{id0}\" cx=\"3\" cy=\"4\" rx=\"2\"/>"),
                    };
                    nodes[0] = NodeSpec {
                        id: id0.clone(),
                        kind: "no-bbox".into(),
                        xml,
                        deps: vec![],
                    };
                    // make sure somebody refers to it
                    let i = nn - 1;
                    let id = nodes[i].id.clone();
                    nodes[i] = NodeSpec {
                        id: id.clone(),
                        kind: "rel-to-no-bbox".into(),
                        xml: {
                            // another, perfectly good, element to go with it where a list is taken
                            // (its own: every other node may depend on node 0)
                            let good = format!("{id}ok");
                            let mk_good = format!("<rect id=\"{good}\" xy=\"70 70\" wh=\"4\"/>");
                            match w.below(9) {
                                0 => format!("<rect id=\"{id}\" xy=\"#{id0}|h\" width=\"3\" height=\"3\"/>"),
                                1 | 7 => format!("{mk_good}<rect id=\"{id}\" surround=\"#{good} #{id0}\" margin=\"1\"/>"),
                                8 => format!("{mk_good}<rect id=\"{id}\" surround=\"#{id0} #{good}\"/>"),
                                2 => format!("<rect id=\"{id}\" surround=\"#{id0}\"/>"),
                                3 => format!("<rect id=\"{id}\" inside=\"#{id0}\"/>"),
                                4 => format!("{mk_good}<line id=\"{id}\" start=\"#{good}\" end=\"#{id0}\"/>"),
                                5 => format!("<rect id=\"{id}\" x=\"#{id0}~x2\" y=\"1\" wh=\"2\"/>"),
                                _ => format!("<rect id=\"{id}\" xy=\"1 1\" width=\"{{{{#{id0}~w + 1}}}}\" height=\"2\"/>"),
                            }
                        },
                        deps: vec![0],
                    };
                    unsat = Some("no-bbox-target".to_string());
                }
            }
        }
        serde_json::to_value(Scn {
            nodes,
            unsat,
            perm_seed: w.next_u64(),
            orders: None,
            exhaustive_upto: if tier == Tier::Thorough { 6 } else { 5 },
            defaults: index % 7 == 3,
            watch: index % 16 == 6 || (tier == Tier::Thorough && index % 64 == 22),
            cfg: if index % 3 == 1 {
                let mut c = Cfg::default();
                c.add_auto_styles = false;
                c.loop_limit = 3 + w.below(6) as u32;
                c.depth_limit = 12 + w.below(88) as u32;
                c.var_limit = 64 + w.below(900) as u32;
                c.debug = w.chance(1, 3);
                c.add_metadata = w.chance(1, 3);
                c.use_local_styles = w.chance(1, 3);
                c.seed = w.below(100);
                Some(c)
            } else {
                None
            },
        })
        .unwrap()
    }

    fn execute(&self, scenario: &Value, env: &WorkerEnv) -> RunResult {
        let mut res = RunResult::default();
        let scn: Scn = match serde_json::from_value(scenario.clone()) {
            Ok(s) => s,
            Err(e) => {
                res.harness_error = Some(format!("bad scenario: {e}"));
                return res;
            }
        };
        let mut cfg = scn.cfg.clone().unwrap_or_default();
        cfg.add_auto_styles = false;
        let (orders, exhaustive) = orders_of(&scn);
        if exhaustive {
            res.stats.probe("exhaustive_all_orders");
        }
        let scn2 = scn.clone();
        let work = move || {
            let mut v = Vec::new();
            for o in &orders {
                let doc = render_doc(&scn2, o);
                let (out, probe) = fe_stream_plain(doc.as_bytes(), &cfg);
                v.push((o.clone(), out, probe));
            }
            v
        };
        let outs = match on_thread(STACK_MAIN, work) {
            Ok(v) => v,
            Err(e) => {
                res.harness_error = Some(e);
                return res;
            }
        };
        if scn.watch && scn.unsat.is_none() && scn.nodes.len() >= 2 {
            // identity order; the same without node 0 (somebody refers to it: must fail, and
            // must not be answered from what the process remembers of the earlier save);
            // reversed order. Each save is judged against a one-shot transform of itself.
            let n = scn.nodes.len();
            let ident: Vec<usize> = (0..n).collect();
            let without0: Vec<usize> = (1..n).collect();
            let rev: Vec<usize> = (0..n).rev().collect();
            let mut saves: Vec<Vec<u8>> = [ident, without0, rev].iter().map(|o| render_doc(&scn, o).into_bytes()).collect();
            let width = saves.iter().map(|d| d.len()).max().unwrap_or(0) + 1;
            for d in saves.iter_mut() {
                while d.len() < width {
                    d.push(b'\n');
                }
            }
            let mut wcfg = scn.cfg.clone().unwrap_or_default();
            wcfg.add_auto_styles = false;
            let (s2, c2) = (saves.clone(), wcfg.clone());
            let expect = on_thread(STACK_MAIN, move || s2.iter().map(|d| fe_stream_plain(d, &c2).0).collect::<Vec<_>>()).unwrap_or_default();
            let dir = env.scratch.join("c10-watch");
            match watch_session(env, wcfg.to_cli_args(), &dir, &saves, None, 1_700_000_000_000_000_000, std::time::Duration::from_secs(15)) {
                Err(e) => {
                    res.harness_error = Some(format!("watch session: {e}"));
                    return res;
                }
                Ok(obs) => {
                    res.stats.probe("orders_as_successive_saves_of_one_watched_file");
                    let mut before: Option<Vec<u8>> = None;
                    for (i, (o, e)) in obs.iter().zip(expect.iter()).enumerate() {
                        res.stats.evaluations += 1;
                        let bad = match e {
                            Outcome::Ok(gb) if !gb.is_empty() => {
                                let same = o.out.as_ref().map(|f| same_outcome_modulo_local_id(&Outcome::Ok(f.clone()), e, wants_local_styles(&saves[i], &wcfg))).unwrap_or(false);
                                // (an unchanged file is only wrong if the save should have changed it)
                                if same || (!o.changed && !o.failure_reported && before.as_deref() == Some(gb.as_slice())) {
                                    None
                                } else {
                                    Some(format!("save {i} renders (one-shot) to {} bytes, the watched output holds {:?} bytes", gb.len(), o.out.as_ref().map(|b| b.len())))
                                }
                            }
                            Outcome::Err(_) if o.out != before => Some(format!("save {i} cannot be transformed on its own (a reference to a node it no longer contains), but the watching process rewrote the output")),
                            _ => None,
                        };
                        if let Some(detail) = bad {
                            res.violation("forward-ref/watch-session", "c10:watch:save-differs-from-one-shot", format!("svgdx --watch over 3 saves (all nodes; node 0 removed; reversed): {detail}"));
                            break;
                        }
                        before = o.out.clone();
                    }
                }
            }
            let _ = std::fs::remove_dir_all(&dir);
        }
        let kinds: Vec<String> = scn.nodes.iter().map(|n| n.kind.clone()).collect();
        res.stats.fingerprint = rng::hash_str(&format!("{:?}{:?}", kinds, scn.nodes.iter().map(|n| n.deps.clone()).collect::<Vec<_>>()));
        let base = outs[0].1.clone();
        let base_geom = match &base {
            Outcome::Ok(b) => geometry(&String::from_utf8_lossy(b)),
            _ => None,
        };
        let mut retries = 0u64;
        for (o, out, probe) in &outs {
            res.stats.evaluations += 1;
            res.stats.outcome(out.class());
            if let Some(p) = probe {
                retries += p.failed_attempts;
                res.stats.steps += p.attempts;
                res.stats.probe_n("retry_attempts", p.failed_attempts);
                res.stats.probe_n("dirty_failed_attempts", p.dirty_failures);
            }
            let is_identity = o.iter().enumerate().all(|(i, v)| i == *v);
            match out {
                Outcome::Panic(p) => {
                    res.violation("totality/panic", "c10:panic", format!("order {o:?}: panic {p}"));
                    continue;
                }
                Outcome::Budget => continue,
                _ => {}
            }
            if let Some(reason) = &scn.unsat {
                if out.is_ok() {
                    let sat_kinds: Vec<&str> = scn.nodes.iter().map(|n| n.kind.as_str()).filter(|k| !k.starts_with("abs")).collect();
                    res.violation(
                        "forward-ref/unsatisfiable-accepted",
                        &format!("c10:unsat-accepted:{reason}"),
                        format!(
                            "unsatisfiable references ({reason}) were accepted under order {o:?} (kinds {sat_kinds:?}); output: {}",
                            shorten(&String::from_utf8_lossy(match out {
                                Outcome::Ok(b) => b,
                                _ => unreachable!(),
                            }), 500)
                        ),
                    );
                }
                continue;
            }
            if is_identity {
                if let Outcome::Err(e) = out {
                    // the forward-reference-free order itself fails: the generator produced a
                    // document svgdx rejects; nothing to compare (not a C10 matter)
                    res.stats.probe("identity_order_rejected");
                    let _ = e;
                    break;
                }
                continue;
            }
            match (&base, out) {
                (Outcome::Ok(_), Outcome::Err(e)) => {
                    let first_fwd = first_forward(&scn, o);
                    res.violation(
                        "forward-ref/order-dependent-failure",
                        &format!("c10:order-fails:{first_fwd}"),
                        format!("identity order succeeds but order {o:?} fails: {}", shorten(e, 400)),
                    );
                }
                (Outcome::Ok(_), Outcome::Ok(b)) => {
                    let g = geometry(&String::from_utf8_lossy(b));
                    match (&base_geom, &g) {
                        (Some(bg), Some(g)) => {
                            let keys_a: Vec<&String> = bg.keys().collect();
                            let keys_b: Vec<&String> = g.keys().collect();
                            if keys_a != keys_b {
                                res.violation(
                                    "forward-ref/element-set-differs",
                                    &format!("c10:elements-differ:{}", first_forward(&scn, o)),
                                    format!("order {o:?}: output elements {:?} vs identity {:?}", keys_b, keys_a),
                                );
                                continue;
                            }
                            for (k, (name, attrs)) in bg {
                                let (name2, attrs2) = &g[k];
                                let same = name == name2
                                    && attrs.len() == attrs2.len()
                                    && attrs.iter().zip(attrs2.iter()).all(|((ka, va), (kb, vb))| ka == kb && attr_close(va, vb));
                                if !same {
                                    // which generated node is it?
                                    let root_id = k.trim_start_matches('#').split('+').next().unwrap_or("");
                                    let node = scn.nodes.iter().find(|n| n.id == root_id);
                                    let kind = node.map(|n| n.kind.clone()).unwrap_or_else(|| "?".into());
                                    let dep_kind = node
                                        .and_then(|n| n.deps.first())
                                        .map(|d| scn.nodes[*d].kind.clone())
                                        .unwrap_or_else(|| "-".into());
                                    res.violation(
                                        "forward-ref/geometry-differs",
                                        &format!("c10:geom:{kind}->{dep_kind}"),
                                        format!(
                                            "element {k} ({kind}, depends on {dep_kind}) has geometry {attrs2:?} under order {o:?} but {attrs:?} under the forward-reference-free order; doc: {}",
                                            shorten(&render_doc(&scn, o), 700)
                                        ),
                                    );
                                    break;
                                }
                            }
                        }
                        _ => {
                            res.stats.probe("output_not_parsed");
                        }
                    }
                }
                _ => {}
            }
        }
        res.stats.nontrivial = retries > 0;
        res
    }

    fn shrink(&self, scenario: &Value) -> Vec<Value> {
        let scn: Scn = match serde_json::from_value(scenario.clone()) {
            Ok(s) => s,
            Err(_) => return vec![],
        };
        let mut out = Vec::new();
        let nn = scn.nodes.len();
        // remove a node nobody depends on
        for i in (0..nn).rev() {
            if nn <= 2 {
                break;
            }
            if scn.nodes.iter().any(|n| n.deps.contains(&i)) {
                continue;
            }
            let mut s = scn.clone();
            s.nodes.remove(i);
            for n in s.nodes.iter_mut() {
                for d in n.deps.iter_mut() {
                    if *d > i {
                        *d -= 1;
                    }
                }
            }
            if let Some(os) = &mut s.orders {
                for o in os.iter_mut() {
                    o.retain(|x| *x != i);
                    for x in o.iter_mut() {
                        if *x > i {
                            *x -= 1;
                        }
                    }
                }
            }
            out.push(s);
        }
        // a single order
        if scn.orders.as_ref().map(|o| o.len() != 1).unwrap_or(true) {
            let (orders, _) = orders_of(&scn);
            for o in orders.into_iter().skip(1).take(130) {
                let mut s = scn.clone();
                s.orders = Some(vec![o]);
                out.push(s);
            }
        }
        out.into_iter().map(|s| serde_json::to_value(s).unwrap()).collect()
    }

    fn rule(&self) -> &'static str {
        "run = one reference DAG over n sibling elements (n in 2..8) executed under every sibling order (all n! for n <= 5, in the thorough tier n <= 6; identity + reversal + 62 seeded orders above); every 5th DAG is unsatisfiable (unknown id, 2-/3-cycle, self reference, target without bounding box); evaluations = transforms; distinct by (node kinds, dependency edges) fingerprint; non-trivial = at least one order made the retry work-list re-run an element (observed through the verif hook)"
    }
    fn components_real(&self) -> Vec<&'static str> {
        vec!["svgdx library (transform_stream) incl. the retry work-list process_tags", "quick-xml"]
    }
    fn components_stub(&self) -> Vec<&'static str> {
        vec!["none: the 'schedule' is the sibling order of the document, the 'fault' is a not-yet-resolvable reference"]
    }
    fn assumptions(&self) -> Vec<&'static str> {
        vec![
            "generated nodes are self-contained (a '^' only ever names an element of its own node, which stays adjacent under every order; no random functions), so geometry may only depend on the reference graph",
            "numeric comparison with absolute tolerance 2e-3 (output is rounded to 3 decimals)",
            "the root viewBox/width/height are compared between sibling orders, not against a reference of their own (what they should be is C08, not applicable)",
        ]
    }
}

/// kind of the first node (in the given order) that appears before one of its dependencies
fn first_forward(scn: &Scn, order: &[usize]) -> String {
    let pos: BTreeMap<usize, usize> = order.iter().enumerate().map(|(p, i)| (*i, p)).collect();
    for i in order {
        for d in &scn.nodes[*i].deps {
            if pos.get(d).copied().unwrap_or(0) > pos[i] {
                return format!("{}->{}", scn.nodes[*i].kind, scn.nodes[*d].kind);
            }
        }
    }
    "none".into()
}
