//! C07 — front-ends agree, transforms are isolated, failures leave no damage.
//!
//! One process hosts several simulated clients whose requests go through the four
//! front-ends on W simulated threads. The threads are real, but a seeded turnstile
//! decides who runs at every yield point (every stream I/O call, every element
//! evaluation, every request boundary). A reference model (golden result per distinct
//! (document, configuration), computed solo before any concurrency) judges every
//! response; failing documents and injected I/O / file-system faults are the faults.

use crate::core::*;
use crate::docgen;
use crate::frontends::*;
use crate::rng::{self, Rng};
use crate::seam;
use crate::simio::{self, ReadPlan, WritePlan};
use crate::turnstile::{self, Policy, Sched, Site, Turnstile};
use crate::xmltree;
use serde::{Deserialize, Serialize};
use serde_json::Value;
use std::collections::BTreeMap;
use std::path::{Path, PathBuf};
use std::rc::Rc;
use std::sync::{Arc, Mutex};
use std::time::Duration;

pub struct C07;

#[derive(Serialize, Deserialize, Clone, Debug, PartialEq)]
pub struct Req {
    /// str | stream | cli-file | router | cli-proc-file | cli-proc-stdio
    pub fe: String,
    pub doc: usize,
    pub cfg: usize,
    /// private directory index of the issuing client
    pub client: usize,
    #[serde(default)]
    pub rplan: ReadPlan,
    #[serde(default)]
    pub wplan: WritePlan,
    /// bytes already in the output file before the request (None = no file)
    #[serde(default)]
    pub out_pre: Option<String>,
    /// same-file alias kind: same | dot | dotdot | symlink | hardlink
    #[serde(default)]
    pub alias: Option<String>,
    /// injected file-system fault: input-is-dir | input-missing | outdir-missing | out-dev-full | tmpdir-missing
    #[serde(default)]
    pub fs_fault: Option<String>,
    /// server-proc only: this many clients send the request at the same moment, twice
    #[serde(default)]
    pub burst: u8,
}

#[derive(Serialize, Deserialize, Clone, Debug, PartialEq)]
pub struct Scn {
    /// agreement (transparent faults only) | damage (hard faults, fs faults, aliases)
    pub mode: String,
    pub docs: Vec<Doc>,
    pub cfgs: Vec<Cfg>,
    /// request list per simulated thread
    pub threads: Vec<Vec<Req>>,
    pub stack_mib: Vec<u8>,
    pub policy: Policy,
    pub sched_seed: u64,
    /// explicit decision list (replay of a recorded interleaving); None = draw from sched_seed
    #[serde(default)]
    pub schedule: Option<Vec<u32>>,
    pub entropy: u64,
    pub clock_ns: u64,
    /// every request carries its own wall-clock value (its client number decides it): the
    /// local-style id of one transform must not leak into another one's output
    #[serde(default)]
    pub per_request_clock: bool,
    /// also run the command in --watch mode over this scenario's first documents, one save
    /// after the other in one process (outside the turnstile: it waits in real time)
    #[serde(default)]
    pub watch: bool,
}

const STEP_BUDGET: u64 = 2_000_000;

#[derive(Clone, Debug)]
struct Resp {
    thread: usize,
    idx: usize,
    req: Req,
    /// normalised outcome of the front-end
    outcome: Outcome,
    /// for class-only comparison (child processes: stderr carries Debug, not Display)
    class_only: bool,
    out_after: Option<Vec<u8>>,
    in_after: Option<Vec<u8>>,
    notes: Vec<String>,
    fired_hard: bool,
    fired_transparent: bool,
    http: Option<(u16, String)>,
}

fn sentinel(s: &str) -> Vec<u8> {
    // long enough to expose a stale tail when the new output is shorter
    let mut v = Vec::new();
    while v.len() < 70_000 {
        v.extend_from_slice(s.as_bytes());
        v.push(b'\n');
    }
    v
}

fn client_dir(env: &WorkerEnv, c: usize) -> PathBuf {
    env.scratch.join("c07").join(format!("c{c}"))
}

fn solo(doc: &Doc, cfg: &Cfg, clock: Option<u64>) -> Outcome {
    let (d, c) = (doc.0.clone(), cfg.clone());
    on_thread(STACK_MAIN, move || {
        if let Some(ns) = clock {
            crate::seam::set_thread_time(ns);
        }
        match fe_str(&d, &c) {
            Some(o) => o,
            None => fe_stream_plain(&d, &c).0,
        }
    })
    .unwrap_or(Outcome::Panic("golden thread failed".into()))
}

fn cfg_of<'a>(scn: &'a Scn, req: &Req) -> &'a Cfg {
    &scn.cfgs[req.cfg]
}

fn request_clock(scn: &Scn, req: &Req) -> Option<u64> {
    if scn.per_request_clock {
        Some(scn.clock_ns + 1_000_000_007 * req.client as u64)
    } else {
        None
    }
}

fn do_request(env: &WorkerEnv, scn: &Scn, req: &Req, thread: usize, idx: usize, yield_io: Option<simio::YieldFn>) -> Resp {
    // (without a "device full" node to write to, those two faults cannot be injected: the
    // request then runs as an ordinary one)
    let mut req = req.clone();
    if matches!(req.fs_fault.as_deref(), Some("out-dev-full" | "stdout-dev-full")) && full_device(env).is_none() {
        req.fs_fault = None;
    }
    let req = &req;
    let doc = &scn.docs[req.doc].0;
    let cfg = &scn.cfgs[req.cfg];
    let mut r = Resp {
        thread,
        idx,
        req: req.clone(),
        outcome: Outcome::Budget,
        class_only: false,
        out_after: None,
        in_after: None,
        notes: vec![],
        fired_hard: false,
        fired_transparent: false,
        http: None,
    };
    let clock = request_clock(scn, req);
    if let Some(ns) = clock {
        crate::seam::set_thread_time(ns);
    }
    match req.fe.as_str() {
        "str" => {
            r.outcome = fe_str(doc, cfg).unwrap_or_else(|| fe_stream_plain(doc, cfg).0);
        }
        "stream" => {
            let s = fe_stream(doc, cfg, &req.rplan, &req.wplan, yield_io);
            r.fired_hard = s.fired_r.hard_read || s.fired_w.hard_write || s.fired_w.write_zero || s.fired_w.flush_err;
            r.fired_transparent = !s.fired_r.map.is_empty() || !s.fired_w.map.is_empty();
            for k in s.fired_r.map.keys().chain(s.fired_w.map.keys()) {
                r.notes.push(format!("fault:{k}"));
            }
            r.outcome = s.outcome;
            r.out_after = Some(s.accepted);
        }
        "router" => {
            let am = if cfg.add_metadata { Some(true) } else { None };
            match fe_router(doc, am) {
                Ok(h) => {
                    r.http = Some((h.status, h.content_type.clone()));
                    if h.needed_runtime {
                        r.notes.push("router_needed_runtime".into());
                    }
                    r.outcome = if h.status == 200 {
                        Outcome::Ok(h.body)
                    } else if h.status == 400 {
                        let t = String::from_utf8_lossy(&h.body).into_owned();
                        Outcome::Err(t.strip_prefix("Error: ").unwrap_or(&t).to_string())
                    } else {
                        Outcome::Panic(format!("http status {}", h.status))
                    };
                }
                Err(o) => r.outcome = o,
            }
        }
        "server-proc" => {
            // end-to-end: the real svgdx-server binary (its own route table, hyper, tokio)
            let am = if cfg.add_metadata { Some(true) } else { None };
            // NB: the lock is never held across a yield point (post() has none)
            let posted = {
                let mut guard = SERVER.lock().unwrap();
                match guard.as_mut() {
                    None => None,
                    Some(srv) if req.burst > 0 => {
                        let port = srv.port;
                        let all = http_burst(port, doc, am, req.burst as usize, 2, Duration::from_secs(20));
                        let alive = srv.alive();
                        r.notes.push(format!("burst_of_{}", all.len()));
                        // all answers must be the same answer: judge one which differs from
                        // the first, if there is one
                        let first = all.first().cloned().flatten();
                        let differing = all.iter().find(|h| match (h, &first) {
                            (Some(h), Some(f)) => h.status != f.status || h.body != f.body,
                            (None, None) => false,
                            _ => true,
                        });
                        let h = match differing {
                            Some(d) => {
                                r.notes.push("burst_answers_differ".into());
                                d.clone()
                            }
                            None => first,
                        };
                        if h.is_none() {
                            *guard = None;
                        }
                        Some((h, alive))
                    }
                    Some(srv) => {
                        // (half of the single requests go on the wire in an unusual but valid way)
                        let mut h = srv.post(doc, am, Duration::from_secs(10));
                        // the same request in every wire style (all Content-Types, body whole and
                        // in pieces): one answer; judge one which differs, if there is one
                        if doc.len() < 200_000 {
                            let port = srv.port;
                            let sweep = http_post_sweep(port, doc, am, Duration::from_secs(10));
                            r.notes.push("request_repeated_in_every_wire_style".into());
                            if let Some(d) = sweep.into_iter().find(|x| match (x, &h) {
                                (Some(x), Some(f)) => x.status != f.status || x.body != f.body,
                                (None, None) => false,
                                _ => true,
                            }) {
                                r.notes.push("wire_styles_answered_differently".into());
                                h = d;
                            }
                        }
                        let alive = srv.alive();
                        if h.is_none() {
                            *guard = None;
                        }
                        Some((h, alive))
                    }
                }
            };
            match posted {
                None => {
                    r.notes.push("server_proc_unavailable".into());
                    // fall back to the in-process router so the request is still judged
                    match fe_router(doc, am) {
                        Ok(h) => {
                            r.http = Some((h.status, h.content_type.clone()));
                            r.outcome = http_outcome(h.status, &h.body);
                        }
                        Err(o) => r.outcome = o,
                    }
                }
                Some((Some(h), _)) => {
                    r.http = Some((h.status, h.content_type.clone()));
                    r.outcome = http_outcome(h.status, &h.body);
                }
                Some((None, alive)) => {
                    r.outcome = Outcome::Panic(format!("no HTTP response from svgdx-server (process {})", if alive { "alive" } else { "died" }));
                }
            }
        }
        fe @ ("cli-file" | "cli-proc-file" | "cli-proc-stdio") => {
            let dir = client_dir(env, req.client).join(format!("t{thread}r{idx}"));
            let _ = std::fs::remove_dir_all(&dir);
            if std::fs::create_dir_all(&dir).is_err() {
                r.outcome = Outcome::Panic("harness: mkdir".into());
                return r;
            }
            // (the output-is-a-directory aliases use an input which already has the name an
            // output placed in that directory would get)
            let in_name = if matches!(req.alias.as_deref(), Some("dir" | "dir-dot")) { "in.svg" } else { "in.xml" };
            let inp = dir.join(in_name);
            let mut outp = dir.join("out.svg");
            let mut in_arg = inp.display().to_string();
            match req.fs_fault.as_deref() {
                Some("input-is-dir") => {
                    let _ = std::fs::create_dir_all(&inp);
                }
                Some("input-missing") => {}
                _ => {
                    if std::fs::write(&inp, doc).is_err() {
                        r.outcome = Outcome::Panic("harness: write input".into());
                        return r;
                    }
                }
            }
            match req.fs_fault.as_deref() {
                Some("outdir-missing") => outp = dir.join("no-such-dir").join("out.svg"),
                Some("out-dev-full") => outp = full_device(env).unwrap_or_else(|| PathBuf::from("/dev/full")),
                _ => {}
            }
            if let Some(kind) = &req.alias {
                // the output path names the input file
                match kind.as_str() {
                    "same" => outp = inp.clone(),
                    "dir" => outp = dir.clone(),
                    "dir-dot" => outp = dir.join("."),
                    "dot" => outp = dir.join(".").join("in.xml"),
                    "dotdot" => {
                        let _ = std::fs::create_dir_all(dir.join("sub"));
                        outp = dir.join("sub").join("..").join("in.xml");
                    }
                    "symlink" => {
                        outp = dir.join("alias.svg");
                        let _ = std::os::unix::fs::symlink(&inp, &outp);
                    }
                    "hardlink" => {
                        outp = dir.join("alias.svg");
                        let _ = std::fs::hard_link(&inp, &outp);
                    }
                    "symlink-in" => {
                        // the INPUT path is a symlink to the output file
                        outp = dir.join("real.svg");
                        let _ = std::fs::rename(&inp, &outp);
                        let _ = std::os::unix::fs::symlink(&outp, &inp);
                    }
                    "relative" => {
                        in_arg = inp.display().to_string();
                        outp = dir.join("in.xml");
                    }
                    _ => {}
                }
            }
            if req.alias.is_none() && req.fs_fault.as_deref() != Some("out-dev-full") {
                if let Some(pre) = &req.out_pre {
                    if let Some(p) = outp.parent() {
                        if p.exists() {
                            let _ = std::fs::write(&outp, sentinel(pre));
                        }
                    }
                }
            }
            let out_arg = outp.display().to_string();
            if fe == "cli-file" {
                let o = fe_cli_inproc(cfg, &in_arg, &out_arg);
                r.outcome = o;
            } else {
                let mut args = cfg.to_cli_args();
                let stdin_data;
                if fe == "cli-proc-file" {
                    // relative spelling of the same paths, from the client's directory
                    args.push(in_name.into());
                    args.push("-o".into());
                    args.push(match outp.strip_prefix(&dir) {
                        Ok(rel) if rel.as_os_str().is_empty() => ".".to_string(),
                        Ok(rel) => rel.display().to_string(),
                        Err(_) => out_arg.clone(),
                    });
                    stdin_data = None;
                } else if req.alias.as_deref() == Some("stdin-redirect") {
                    args.push("-o".into());
                    args.push(in_name.into());
                    stdin_data = None;
                } else {
                    stdin_data = Some(doc.as_slice());
                }
                let mut envs = vec![];
                if req.fs_fault.as_deref() == Some("tmpdir-missing") {
                    envs.push(("TMPDIR".to_string(), dir.join("no-such-tmp").display().to_string()));
                }
                let cr = run_child(
                    env,
                    "svgdx",
                    ChildSpec {
                        args,
                        stdin: stdin_data,
                        cwd: &dir,
                        entropy: Some(scn.entropy ^ (idx as u64 + 1)),
                        fake_time_ns: Some(clock.unwrap_or(scn.clock_ns)),
                        env: envs,
                        env_remove: vec![],
                        timeout: Duration::from_secs(20),
                        stdout_to: match req.fs_fault.as_deref() {
                            Some("stdout-dev-full") => full_device(env),
                            Some("stdout-closed-pipe") => Some(PathBuf::from("closed-pipe")),
                            _ => None,
                        },
                        stdin_file: if req.alias.as_deref() == Some("stdin-redirect") { Some(inp.clone()) } else { None },
                        stderr_to: None,
                    },
                );
                r.class_only = true;
                match cr {
                    Err(e) => r.outcome = Outcome::Panic(format!("harness: {e}")),
                    Ok(c) => {
                        if c.timed_out {
                            r.outcome = Outcome::Budget;
                        } else if c.signal.is_some() || c.code == Some(101) {
                            r.outcome = Outcome::Panic(format!("child died: code {:?} signal {:?}: {}", c.code, c.signal, shorten(&String::from_utf8_lossy(&c.stderr), 200)));
                        } else if c.code == Some(0) {
                            r.outcome = Outcome::Ok(if fe == "cli-proc-stdio" { c.stdout.clone() } else { Vec::new() });
                        } else {
                            if c.stderr.iter().all(|b| b.is_ascii_whitespace()) {
                                r.notes.push("silent-failure".into());
                            }
                            r.outcome = Outcome::Err(String::new());
                        }
                    }
                }
            }
            if fe != "cli-proc-stdio" {
                r.out_after = if req.fs_fault.as_deref() == Some("out-dev-full") { None } else { std::fs::read(&outp).ok() };
                if let (Outcome::Ok(_), Some(b)) = (&r.outcome, &r.out_after) {
                    r.outcome = Outcome::Ok(b.clone());
                }
            }
            r.in_after = std::fs::read(if req.alias.as_deref() == Some("symlink-in") { &outp } else { &inp }).ok();
            let _ = std::fs::remove_dir_all(&dir);
        }
        other => r.outcome = Outcome::Panic(format!("harness: unknown front-end {other}")),
    }
    if clock.is_some() {
        crate::seam::clear_thread_time();
    }
    r
}

static SERVER: Mutex<Option<ServerChild>> = Mutex::new(None);

fn http_outcome(status: u16, body: &[u8]) -> Outcome {
    if status == 200 {
        Outcome::Ok(body.to_vec())
    } else if status == 400 {
        let t = String::from_utf8_lossy(body).into_owned();
        Outcome::Err(t.strip_prefix("Error: ").unwrap_or(&t).to_string())
    } else {
        Outcome::Panic(format!("http status {status}"))
    }
}

fn small_corpus(env: &WorkerEnv) -> Vec<(String, Vec<u8>)> {
    docgen::corpus(env).into_iter().filter(|(_, b)| b.len() < 2500).collect()
}

impl Engine for C07 {
    fn id(&self) -> &'static str {
        "C07"
    }
    fn runs(&self, tier: Tier) -> u64 {
        match tier {
            Tier::Quick => 900,
            Tier::Thorough => 40000,
        }
    }
    fn fresh_process_per_run(&self) -> bool {
        true
    }
    fn cpu_budget_s(&self, _tier: Tier) -> f64 {
        30.0
    }

    fn generate(&self, seed: u64, index: u64, tier: Tier, env: &WorkerEnv) -> Value {
        let rs = rng::run_seed(seed, "C07", index);
        let mut w = Rng::sub(rs, "workload");
        let mut c = Rng::sub(rs, "config");
        let mut f = Rng::sub(rs, "faults");
        let mut sp = Rng::sub(rs, "sched-policy");
        let damage = index % 4 == 3;
        // documents: succeeding, failing, random-using; a few shared by many requests
        let n_docs = 2 + w.usize(4);
        let corpus = small_corpus(env);
        let mut docs = Vec::new();
        for _ in 0..n_docs {
            let d = match w.below(21) {
                16 => Doc::from_str(&docgen::intl_doc(&mut w)),
                // (documents with state to leak - templates, random draws, accumulators - stay
                // as frequent as they were before the other families were added)
                17 | 18 | 19 => Doc::from_str(&docgen::stateful_doc(&mut w)),
                // bytes which are not UTF-8 (only the stream functions and the command can be
                // given them; they must agree on what to make of them)
                20 => Doc(match w.below(3) {
                    0 => b"<svg><rect wh=\"3\" text=\"caf\xe9\"/></svg>".to_vec(),
                    1 => b"<svg><text xy=\"0 0\">a\xe2\x82</text></svg>".to_vec(),
                    _ => b"<svg><!-- \xff\xfe --><rect wh=\"2\"/></svg>".to_vec(),
                }),
                0 | 1 => Doc::from_str(&docgen::failing_doc(&mut w).0),
                13 => Doc::from_str(&docgen::crlf_doc(&mut w)),
                14 => Doc::from_str(&docgen::limit_hitting_doc(&mut w)),
                15 => Doc::from_str(&docgen::many_failures_doc(&mut w)),
                2 if !corpus.is_empty() => Doc(corpus[w.usize(corpus.len())].1.clone()),
                3 => Doc::from_str(&format!(
                    "<svg><rect xy=\"{{{{randint(0, 99)}}}} {{{{randint(0, 99)}}}}\" wh=\"{{{{randint(1, 9)}}}}\" text=\"{{{{random()}}}}\"/><circle cxy=\"^@br\" r=\"{{{{randint(1, 5)}}}}\"/></svg>"
                )),
                4 => Doc::from_str(if w.chance(1, 2) {
                    ""
                } else {
                    // a fragment: one line, no root element, no trailing newline
                    *w.pick(&["<rect wh=\"3\" text=\"x\"/>", "<g><circle r=\"2\"/><rect xy=\"^|h\" wh=\"1\"/></g>", "<text xy=\"1 1\">frag</text>"])
                }),
                6 => Doc::from_str(&docgen::leak_probe_doc(&mut w)),
                7 => Doc::from_str(&docgen::stateful_doc(&mut w)),
                8 => Doc::from_str(&if w.chance(1, 2) { docgen::near_limit_doc(&mut w) } else { docgen::long_line_fragment(&mut w) }),
                9 => Doc::from_str(&docgen::real_svg_doc(&mut w)),
                5 if damage => Doc(vec![b'<', b's', b'v', b'g', b'>', 0xff, b'<', b'/', b's', b'v', b'g', b'>']),
                _ => Doc::from_str(&docgen::feature_doc(&mut w, w_bool(&mut c), true)),
            };
            docs.push(d);
        }
        let n_cfgs = 1 + w.usize(3);
        let mut cfgs: Vec<Cfg> = Vec::new();
        for i in 0..n_cfgs {
            let mut k = if i == 0 { Cfg::default() } else { docgen::draw_cfg(&mut c, true) };
            if i > 0 && c.chance(1, 2) {
                // a configuration differing from another one only in the seed
                k = cfgs[0].clone();
                k.seed = 1 + c.below(1000);
            }
            cfgs.push(k);
        }
        // now and then a configuration with RAISED limits among them: a neighbour's limits must
        // not become anybody else's (depth kept modest: simulated threads have 2 MiB stacks)
        if c.chance(1, 4) {
            let mut k = docgen::draw_cfg(&mut c, false);
            k.depth_limit = 120;
            k.loop_limit = 3000;
            k.var_limit = 5000;
            cfgs.push(k);
        }
        // server-expressible configurations (only add_metadata) for router requests
        let mut server_cfgs: Vec<usize> = cfgs.iter().enumerate().filter(|(_, k)| k.server_expressible()).map(|(i, _)| i).collect();
        if server_cfgs.len() < 2 && c.chance(1, 2) {
            let mut k = Cfg::default();
            k.add_metadata = true;
            cfgs.push(k);
            server_cfgs.push(cfgs.len() - 1);
        }
        // every eighth scenario is the plainest contention there is: three threads, each twice
        // through the library with documents that have state to leak (templates, random draws,
        // accumulators), switched at every element
        let contention = index % 8 == 2 && !damage;
        if contention {
            docs.truncate(1);
            docs[0] = Doc::from_str(&docgen::stateful_doc(&mut w));
            docs.push(Doc::from_str(&docgen::stateful_doc(&mut w)));
        }
        let n_threads = if contention { 3 } else { 1 + w.usize(4) };
        let mut threads: Vec<Vec<Req>> = Vec::new();
        let mut burst_reqs: Vec<(usize, usize)> = Vec::new();
        let mut client = 0;
        for _ in 0..n_threads {
            let n_req = 1 + w.usize(4);
            let mut reqs = Vec::new();
            for _ in 0..n_req {
                client += 1;
                let doc = w.usize(docs.len());
                let utf8 = docs[doc].as_str().is_some();
                let mut fe = match if contention { w.below(11) } else { w.below(20) } {
                    0..=5 => "str",
                    6..=10 => "stream",
                    11..=14 => "cli-file",
                    15..=18 => "router",
                    _ => {
                        if tier == Tier::Thorough || index % 4 == 3 || index % 4 == 1 {
                            if w.chance(1, 2) {
                                "cli-proc-file"
                            } else {
                                "cli-proc-stdio"
                            }
                        } else {
                            "cli-file"
                        }
                    }
                };
                // documents whose interesting behaviour is at the process boundary go there often
                let d = &docs[doc].0;
                let boundary_doc = std::str::from_utf8(d).is_err() || (d.len() > 1000 && !d.contains(&b'\n'));
                if boundary_doc && w.chance(1, 2) {
                    fe = if w.chance(1, 2) { "cli-proc-stdio" } else { "cli-proc-file" };
                }
                if !utf8 && (fe == "str" || fe == "router") {
                    fe = "stream";
                }
                if fe == "router" && (index % 16 == 5 || (tier == Tier::Thorough && index % 4 == 1)) {
                    fe = "server-proc";
                }
                let cfg = if fe == "router" || fe == "server-proc" { server_cfgs[w.usize(server_cfgs.len())] } else { w.usize(cfgs.len()) };
                let mut r = Req {
                    fe: fe.to_string(),
                    doc,
                    cfg,
                    client,
                    rplan: ReadPlan::default(),
                    wplan: WritePlan::default(),
                    out_pre: None,
                    alias: None,
                    fs_fault: None,
                    burst: 0,
                };
                if fe == "server-proc" && w.chance(1, 2) {
                    r.burst = 6 + w.below(7) as u8;
                    burst_reqs.push((threads.len(), reqs.len()));
                }
                if fe == "stream" {
                    let len = docs[doc].0.len();
                    let hr = damage && f.chance(1, 3);
                    let hw = damage && f.chance(1, 2);
                    r.rplan = simio::draw_read_plan(&mut f, len, hr);
                    r.wplan = simio::draw_write_plan(&mut f, len.max(300), hw);
                    if !damage {
                        r.wplan.flush_err = false;
                    }
                }
                if fe == "cli-proc-stdio" && damage && f.chance(1, 4) {
                    // the reader of the pipe has gone away
                    r.fs_fault = Some("stdout-closed-pipe".to_string());
                } else if fe == "cli-proc-stdio" && damage && f.chance(1, 2) {
                    r.fs_fault = Some("stdout-dev-full".to_string());
                } else if fe == "cli-proc-stdio" && damage && f.chance(1, 3) {
                    // `svgdx -o f < f`: standard input IS the output file
                    r.alias = Some("stdin-redirect".to_string());
                }
                if fe.starts_with("cli") && fe != "cli-proc-stdio" {
                    if f.chance(2, 3) {
                        r.out_pre = Some(format!("SENTINEL-{client}"));
                    }
                    if damage {
                        match f.below(10) {
                            0..=2 => {
                                r.alias = Some(f.pick(&["same", "dot", "dotdot", "symlink", "hardlink", "symlink-in", "dir", "dir-dot"]).to_string());
                            }
                            3..=5 => {
                                let mut kinds = vec!["input-is-dir", "input-missing", "outdir-missing", "out-dev-full"];
                                if fe == "cli-proc-file" {
                                    kinds.push("tmpdir-missing");
                                }
                                r.fs_fault = Some(f.pick(&kinds).to_string());
                            }
                            _ => {}
                        }
                    }
                }
                reqs.push(r);
            }
            threads.push(reqs);
        }
        // now and then: a document just over 2 MiB (cheap to transform: most of it is one
        // comment) through the library and through the server
        if index % 64 == 17 && !damage {
            let n = 2_100_000 + w.below(400_000) as usize;
            docs.push(Doc::from_str(&format!("<svg><!--{}--><rect wh=\"1\"/></svg>\n", "x".repeat(n))));
            let d = docs.len() - 1;
            for fe in ["str", if w.chance(1, 2) { "router" } else { "server-proc" }] {
                client += 1;
                threads[0].push(Req {
                    fe: fe.to_string(),
                    doc: d,
                    cfg: 0,
                    client,
                    rplan: ReadPlan::default(),
                    wplan: WritePlan::default(),
                    out_pre: None,
                    alias: None,
                    fs_fault: None,
                    burst: 0,
                });
            }
        }
        // requests sent as a burst use a document heavy enough for the transforms to overlap
        // inside the server (a few milliseconds each)
        if !burst_reqs.is_empty() {
            let n = 150 + w.below(250);
            docs.push(Doc::from_str(&format!(
                "<svg>\n  <loop count=\"{n}\" loop-var=\"i\"><rect xy=\"{{{{$i * 3}}}} {{{{$i % 7}}}}\" wh=\"2\" text=\"n$i\" class=\"d-fill-red\"/><circle cxy=\"^@br\" r=\"{{{{1 + $i % 3}}}}\"/></loop>\n</svg>\n"
            )));
            for (t, q) in &burst_reqs {
                threads[*t][*q].doc = docs.len() - 1;
            }
        }
        let policy = match if contention { 1 } else { sp.below(8) } {
            0 => Policy::Sequential,
            1 | 2 => Policy::Uniform,
            3 | 4 => Policy::Sticky { keep: 8 + sp.below(7) as u8 },
            _ => Policy::Pct {
                d: 1 + sp.below(3) as u8,
                horizon: 50 + sp.below(600) as u32,
            },
        };
        let stack_mib = (0..n_threads).map(|i| if i % 2 == 0 { 2 } else { 8 }).collect();
        let scn = Scn {
            mode: if damage { "damage" } else { "agreement" }.into(),
            docs,
            cfgs,
            threads,
            stack_mib,
            policy,
            sched_seed: rs,
            schedule: None,
            entropy: Rng::sub(rs, "entropy").next_u64(),
            clock_ns: 1_700_000_000_000_000_000 + Rng::sub(rs, "clock").below(86_400_000_000_000),
            per_request_clock: Rng::sub(rs, "request-clock").chance(1, 2),
            watch: index % 16 == 9 || (tier == Tier::Thorough && index % 16 == 1),
        };
        serde_json::to_value(scn).unwrap()
    }

    fn execute(&self, scenario: &Value, env: &WorkerEnv) -> RunResult {
        let mut res = RunResult::default();
        let scn: Scn = match serde_json::from_value(scenario.clone()) {
            Ok(s) => s,
            Err(e) => {
                res.harness_error = Some(format!("bad scenario: {e}"));
                return res;
            }
        };
        for t in &scn.threads {
            for r in t {
                if r.doc >= scn.docs.len() || r.cfg >= scn.cfgs.len() {
                    res.harness_error = Some("request refers to a missing document/configuration".into());
                    return res;
                }
            }
        }
        seam::arm(scn.entropy);
        seam::set_time(scn.clock_ns);
        res.stats.clock(scn.clock_ns);
        let _ = std::fs::remove_dir_all(env.scratch.join("c07"));

        // ---- reference model: golden result per distinct (doc, cfg), solo, forward then reverse
        let mut pairs: Vec<(usize, usize, Option<u64>)> = scn.threads.iter().flatten().map(|r| (r.doc, r.cfg, request_clock(&scn, r))).collect();
        pairs.sort();
        pairs.dedup();
        if scn.per_request_clock {
            res.stats.probe("every_request_has_its_own_clock");
        }
        let mut golden: BTreeMap<(usize, usize, Option<u64>), Outcome> = BTreeMap::new();
        for p in &pairs {
            golden.insert(*p, solo(&scn.docs[p.0], &scn.cfgs[p.1], p.2));
            res.stats.evaluations += 1;
        }
        for p in pairs.iter().rev() {
            let again = solo(&scn.docs[p.0], &scn.cfgs[p.1], p.2);
            res.stats.evaluations += 1;
            if !same_outcome_modulo_local_id(&again, &golden[p], wants_local_styles(&scn.docs[p.0].0, &scn.cfgs[p.1])) {
                res.violation(
                    "isolation/golden-pass-order",
                    "c07:golden-order-dependent",
                    format!("solo result of (doc {}, cfg {}) differs between the forward and the reverse pass: {} vs {}", p.0, p.1, golden[p].brief(), again.brief()),
                );
            }
        }

        // ---- the same reference from a process that has seen nothing else: state which lives
        // as long as the process (a cache, a global) reaches the in-process reference runs
        // just as it reaches the requests, so agreement between those two proves nothing
        // about it. Every fourth scenario (every second in the thorough tier) repeats each
        // reference run in a fresh svgdx process with the same clock.
        if scn.per_request_clock && scn.cfgs.iter().any(|c| c.use_local_styles) {
            let dir = env.scratch.join("c07").join("fresh");
            let _ = std::fs::create_dir_all(&dir);
            for p in &pairs {
                let cfg = &scn.cfgs[p.1];
                if !cfg.use_local_styles {
                    continue;
                }
                let cr = run_child(
                    env,
                    "svgdx",
                    ChildSpec {
                        args: cfg.to_cli_args(),
                        stdin: Some(scn.docs[p.0].0.as_slice()),
                        cwd: &dir,
                        entropy: Some(scn.entropy ^ 0x5eed),
                        fake_time_ns: Some(p.2.unwrap_or(scn.clock_ns)),
                        env: vec![],
                        env_remove: vec![],
                        timeout: Duration::from_secs(20),
                        stdout_to: None,
                        stdin_file: None,
                        stderr_to: None,
                    },
                );
                res.stats.evaluations += 1;
                res.stats.probe("reference_repeated_in_fresh_process");
                if let (Ok(c), Outcome::Ok(gb)) = (&cr, &golden[p]) {
                    if c.code == Some(0) && !c.timed_out && {
                        let (ma, mb) = mask_local_id_pair(&c.stdout, gb);
                        ma != mb
                    } {
                        res.violation(
                            "isolation/in-process-differs-from-fresh-process",
                            "c07:isolation:bytes-differ:fresh-process-reference",
                            format!(
                                "solo in-process result of (doc {}, cfg {}, clock {:?}) is not what a fresh svgdx process prints for the same input, configuration and clock ({} vs {} bytes): something outlives a transform inside the process",
                                p.0,
                                p.1,
                                p.2,
                                gb.len(),
                                c.stdout.len()
                            ),
                        );
                        break;
                    }
                }
            }
        }

        // ---- the command in --watch mode: a long first save, then this scenario's documents,
        // all through ONE process; what the output file holds after each save is what a
        // one-shot run gives for that save (or, for a failing save, what it held before)
        if scn.watch {
            let cfg = scn.cfgs[0].clone();
            let long = {
                let mut s = String::from("<svg>\n");
                for i in 0..60 {
                    s.push_str(&format!("  <rect xy=\"{} {}\" wh=\"9 4\" text=\"long {i}\" class=\"d-fill-red\"/>\n", (i % 8) * 12, (i / 8) * 7));
                }
                s.push_str("</svg>\n");
                Doc::from_str(&s)
            };
            let mut saves: Vec<Doc> = vec![long];
            for d in scn.docs.iter().filter(|d| d.as_str().is_some()).take(3) {
                if saves.last().map(|l| l.0 != d.0).unwrap_or(true) {
                    saves.push(d.clone());
                }
            }
            // all saves are padded to one length (blank lines at the end), so that saving is one
            // overwrite in place and the watching command never reads a half-saved file
            let width = saves.iter().map(|d| d.0.len()).max().unwrap_or(0) + 1;
            let saves: Vec<Doc> = saves
                .into_iter()
                .map(|d| {
                    let mut b = d.0;
                    while b.len() < width {
                        b.push(b'\n');
                    }
                    Doc(b)
                })
                .collect();
            // (a save which renders to nothing, or to what is there already, shows nothing)
            let mut kept: Vec<Doc> = Vec::new();
            let mut expect: Vec<Outcome> = Vec::new();
            for d in saves {
                let e = solo(&d, &cfg, None);
                let shows = match (&e, expect.iter().rev().find(|p| matches!(p, Outcome::Ok(_)))) {
                    (Outcome::Ok(b), _) if b.is_empty() => false,
                    (Outcome::Ok(b), Some(Outcome::Ok(p))) => b != p,
                    (Outcome::Ok(_), _) | (Outcome::Err(_), _) => true,
                    _ => false,
                };
                if shows {
                    kept.push(d);
                    expect.push(e);
                }
            }
            let saves = kept;
            let bytes: Vec<Vec<u8>> = saves.iter().map(|d| d.0.clone()).collect();
            let dir = env.scratch.join("c07").join("watch");
            match watch_session(env, cfg.to_cli_args(), &dir, &bytes, None, scn.clock_ns, Duration::from_secs(15)) {
                Err(e) => {
                    res.harness_error = Some(format!("watch session: {e}"));
                    return res;
                }
                Ok(obs) => {
                    res.stats.frontend("cli-watch");
                    res.stats.probe("watch_session_over_several_saves");
                    let local = |d: &Doc| wants_local_styles(&d.0, &cfg);
                    let mut before: Option<Vec<u8>> = None;
                    for (i, (o, e)) in obs.iter().zip(expect.iter()).enumerate() {
                        res.stats.evaluations += 1;
                        let what = match e {
                            Outcome::Ok(gb) if gb.is_empty() => None, // (nothing to show for an empty rendering)
                            Outcome::Ok(gb) => {
                                let same = o.out.as_ref().map(|f| same_outcome_modulo_local_id(&Outcome::Ok(f.clone()), &Outcome::Ok(gb.clone()), local(&saves[i]))).unwrap_or(false);
                                if same {
                                    None
                                } else if !o.changed && !o.failure_reported {
                                    Some(("no-render", format!("save {i}: the watching command neither rendered nor reported a failure within 15 s")))
                                } else {
                                    Some(("output-differs", format!("save {i}: the output file holds {:?} bytes, a one-shot transform of the same save gives {} bytes", o.out.as_ref().map(|b| b.len()), gb.len())))
                                }
                            }
                            Outcome::Err(_) => {
                                if o.out != before {
                                    Some(("output-touched", format!("save {i} fails to transform, but the output file changed")))
                                } else if !o.failure_reported {
                                    Some(("failure-not-reported", format!("save {i} fails to transform, the watching command reported nothing")))
                                } else {
                                    None
                                }
                            }
                            _ => None,
                        };
                        if let Some((k, detail)) = what {
                            res.violation("watch/agreement", &format!("c07:watch:{k}"), format!("svgdx --watch, one process over {} saves; {detail}", saves.len()));
                            break;
                        }
                        before = o.out.clone();
                    }
                }
            }
            let _ = std::fs::remove_dir_all(&dir);
        }

        // the real server (if any request wants it) is started from this thread: a child is
        // tied to the thread that spawned it (PR_SET_PDEATHSIG), and simulated threads end
        if scn.threads.iter().flatten().any(|r| r.fe == "server-proc") {
            let mut guard = SERVER.lock().unwrap();
            if guard.as_mut().map(|s| !s.alive()).unwrap_or(true) {
                *guard = ServerChild::start(env, server_port()).ok();
            }
        }

        // ---- concurrent execution under the turnstile
        let n = scn.threads.len();
        let sched = match &scn.schedule {
            Some(d) => Sched::Fixed { decisions: d.clone(), pos: 0 },
            None => Sched::draw(scn.sched_seed, scn.policy.clone(), n),
        };
        let ts = Turnstile::new(sched, STEP_BUDGET);
        let results: Arc<Mutex<Vec<Resp>>> = Arc::new(Mutex::new(Vec::new()));
        let scn_arc = Arc::new(scn.clone());
        let env_arc = Arc::new(env.clone());
        for tid in 0..n {
            ts.register(tid);
        }
        let mut handles = Vec::new();
        for tid in 0..n {
            let ts2 = ts.clone();
            let scn2 = scn_arc.clone();
            let env2 = env_arc.clone();
            let results2 = results.clone();
            let stack = (scn.stack_mib.get(tid).copied().unwrap_or(2).max(1) as usize) << 20;
            let h = std::thread::Builder::new().stack_size(stack).spawn(move || {
                ts2.begin(tid);
                let ts3 = ts2.clone();
                svgdx::verif::set_callback(Some(Box::new(move |site| {
                    let s = match site {
                        svgdx::verif::Site::ElemEnter => Site::ElemEnter,
                        svgdx::verif::Site::ElemExit { .. } => Site::ElemExit,
                        svgdx::verif::Site::RngDraw => Site::RngDraw,
                        svgdx::verif::Site::AttrEval => Site::AttrEval,
                    };
                    ts3.yield_point(tid, s);
                })));
                let body = std::panic::catch_unwind(std::panic::AssertUnwindSafe(|| {
                    for (idx, req) in scn2.threads[tid].iter().enumerate() {
                        ts2.yield_point(tid, Site::Req);
                        let ts4 = ts2.clone();
                        let y: simio::YieldFn = Rc::new(move |is_read| {
                            ts4.yield_point(tid, if is_read { Site::Read } else { Site::Write });
                        });
                        let r = do_request(&env2, &scn2, req, tid, idx, Some(y));
                        results2.lock().unwrap().push(r);
                    }
                }));
                svgdx::verif::set_callback(None);
                ts2.finish(tid);
                body.is_ok()
            });
            match h {
                Ok(h) => handles.push(h),
                Err(e) => {
                    res.harness_error = Some(format!("spawn: {e}"));
                    return res;
                }
            }
        }
        ts.run();
        let mut budget_hit = false;
        for h in handles {
            if let Ok(false) = h.join() {
                budget_hit = true;
            }
        }
        seam::disarm();
        let _ = std::fs::remove_dir_all(env.scratch.join("c07"));
        let (steps, switches, log, switch_sites, diverged, stolen) =
            ts.with_state(|st| (st.steps, st.switches, st.log.clone(), st.switch_sites.clone(), st.diverged, st.stolen));
        res.stats.probe_n("token_handed_on_because_holder_blocked_in_os_lock", stolen);
        res.stats.steps = steps;
        res.stats.switches = switches;
        if diverged > 0 {
            res.stats.probe_n("replayed_decisions_not_applicable", diverged);
        }
        for (site, nn) in &switch_sites {
            let name = match site {
                1 => "switch_inside_reader_call",
                2 => "switch_inside_writer_session",
                3 | 4 => "switch_inside_element_list",
                6 => "switch_at_prng_draw",
                7 => "switch_inside_attribute_evaluation",
                5 => "switch_at_request_boundary",
                _ => "switch_other",
            };
            res.stats.probe_n(name, *nn);
        }
        if budget_hit {
            res.violation(
                "liveness/step-budget",
                "c07:step-budget",
                format!("simulated threads did not finish within {STEP_BUDGET} steps"),
            );
        }
        let resps = results.lock().unwrap().clone();
        let expected: usize = scn.threads.iter().map(|t| t.len()).sum();
        if resps.len() != expected && !budget_hit {
            res.violation(
                "liveness/requests-lost",
                "c07:requests-lost",
                format!("{} of {} requests completed", resps.len(), expected),
            );
        }

        // ---- history checks
        let mut per_thread_count: BTreeMap<usize, usize> = BTreeMap::new();
        for r in &resps {
            res.stats.evaluations += 1;
            res.stats.frontend(&r.req.fe);
            res.stats.outcome(r.outcome.class());
            *per_thread_count.entry(r.thread).or_insert(0) += 1;
            for nn in &r.notes {
                if let Some(k) = nn.strip_prefix("fault:") {
                    res.stats.fault(k);
                } else {
                    res.stats.probe(nn);
                }
            }
            let g = &golden[&(r.req.doc, r.req.cfg, request_clock(&scn, &r.req))];
            let fe = r.req.fe.as_str();
            if r.outcome == Outcome::Budget {
                res.violation(
                    "liveness/step-budget",
                    "c07:step-budget",
                    format!("thread {} request {} did not finish within the step budget", r.thread, r.idx),
                );
                continue;
            }
            let where_ = format!("thread {} request {} ({fe}, doc {}, cfg {})", r.thread, r.idx, r.req.doc, r.req.cfg);
            if let Outcome::Panic(p) = &r.outcome {
                if p.starts_with("harness:") {
                    res.harness_error = Some(format!("{where_}: {p}"));
                    return res;
                }
            }
            // --- same-file refusal
            if let Some(kind) = &r.req.alias {
                res.stats.fault(&format!("fs.alias.{kind}"));
                let input = &scn.docs[r.req.doc].0;
                let refused = r.outcome.is_err();
                let intact = r.in_after.as_deref() == Some(input.as_slice());
                if !refused || !intact {
                    res.violation(
                        &format!("same-file-refusal/{kind}"),
                        &format!("c07:same-file-refusal:{kind}"),
                        format!(
                            "{where_}: output path names the input file ({kind}); command {} and the input file is {}",
                            if refused { "failed" } else { "did NOT fail" },
                            if intact { "unchanged" } else { "CHANGED" }
                        ),
                    );
                }
                continue;
            }
            // --- injected file-system faults
            // (a missing TMPDIR is a fault only for an implementation that stages its output
            // there: if the command did not fail, it is held to the ordinary oracle below)
            // (likewise a missing output directory: a command which creates it has not failed)
            let unnoticed = matches!(r.req.fs_fault.as_deref(), Some("tmpdir-missing" | "outdir-missing")) && !r.outcome.is_err();
            if unnoticed {
                res.stats.fault(&format!("fs.{}", r.req.fs_fault.as_deref().unwrap_or("")));
                res.stats.probe("environment_fault_not_a_failure_for_the_command");
            }
            if let Some(ff) = r.req.fs_fault.as_ref().filter(|_| !unnoticed) {
                res.stats.fault(&format!("fs.{ff}"));
                // a full device only fails a write that writes something
                let nothing_to_write = (ff == "out-dev-full" || ff == "stdout-dev-full" || ff == "stdout-closed-pipe") && matches!(g, Outcome::Ok(b) if b.is_empty());
                if !r.outcome.is_err() && !nothing_to_write {
                    res.violation(
                        "damage/fs-fault-not-reported",
                        &format!("c07:fs-fault-not-reported:{ff}"),
                        format!("{where_}: injected file-system fault {ff} but the command returned {}", r.outcome.brief()),
                    );
                }
                if let Some(pre) = &r.req.out_pre {
                    if ff != "outdir-missing" && ff != "out-dev-full" && ff != "stdout-dev-full" && ff != "stdout-closed-pipe" {
                        res.stats.probe("failing_request_with_existing_output");
                        if r.out_after.as_deref() != Some(sentinel(pre).as_slice()) {
                            res.violation(
                                "damage/output-touched-after-failure",
                                &format!("c07:output-touched:{ff}"),
                                format!("{where_}: command failed ({ff}) but the existing output file changed"),
                            );
                        }
                    }
                }
                continue;
            }
            // --- hard stream faults (damage configuration): relaxed, narrow oracle
            if r.fired_hard {
                res.stats.probe("hard_stream_fault_fired");
                if !r.outcome.is_err() {
                    res.violation(
                        "damage/stream-fault-swallowed",
                        "c07:stream-fault-swallowed",
                        format!("{where_}: a hard stream fault fired but the result is {}", r.outcome.brief()),
                    );
                }
                if let (Outcome::Ok(gb), Some(acc)) = (g, &r.out_after) {
                    if !is_prefix_modulo_local_id(acc, gb, wants_local_styles(&scn.docs[r.req.doc].0, cfg_of(&scn, &r.req))) {
                        res.violation(
                            "damage/partial-output-not-a-prefix",
                            "c07:partial-output-not-prefix",
                            format!("{where_}: bytes accepted before the fault are not a prefix of the golden output"),
                        );
                    }
                }
                continue;
            }
            // --- isolation / agreement with the golden result of the request's own pair
            // a known disagreement, reported under a signature of its own (known_findings.json):
            // where the library and the command give an empty rendering (an empty document),
            // the server answers 400 "Empty response"
            if matches!(fe, "router" | "server-proc") && matches!(g, Outcome::Ok(b) if b.is_empty()) && matches!(&r.outcome, Outcome::Err(t) if t.contains("Empty response")) {
                res.violation(
                    "agreement/empty-rendering",
                    "c07:empty-rendering-is-an-error-for-the-server",
                    format!("{where_}: the library renders this input to nothing (Ok, 0 bytes), the server answers HTTP 400 'Empty response'"),
                );
                continue;
            }
            // another known disagreement: the server refuses bodies over 2 MiB (413), the
            // library and the command have no such bound
            if matches!(fe, "router" | "server-proc") && scn.docs[r.req.doc].0.len() > 2 * 1024 * 1024 && matches!(r.http, Some((413, _))) && matches!(g, Outcome::Ok(_)) {
                res.violation(
                    "agreement/body-limit",
                    "c07:body-over-2MiB-refused-by-the-server",
                    format!("{where_}: a {} byte document is transformed by the library, the server answers HTTP 413", scn.docs[r.req.doc].0.len()),
                );
                continue;
            }
            let g_for_fe: Outcome = g.clone();
            // with local styles the root id is random by permission (C06): whatever it is made
            // from, two runs may differ in that one token and in nothing else
            let local_styles = cfg_of(&scn, &r.req).use_local_styles || scn.docs[r.req.doc].0.windows(16).any(|w| w == b"use-local-styles");
            let agrees = match (&r.outcome, &g_for_fe) {
                (Outcome::Ok(a), Outcome::Ok(b)) if local_styles && a != b => {
                    res.stats.probe("local_id_masked_compare");
                    let (ma, mb) = mask_local_id_pair(a, b);
                    ma == mb
                }
                (Outcome::Ok(a), Outcome::Ok(b)) => a == b,
                // the statement asks for "an error", not for one message format across
                // front-ends: texts are compared only between the library functions
                (Outcome::Err(a), Outcome::Err(b)) => r.class_only || !matches!(fe, "str" | "stream") || a == b,
                (a, b) => a == b,
            };
            if !agrees {
                let kind = match (&r.outcome, &g_for_fe) {
                    (Outcome::Ok(_), Outcome::Ok(_)) => "bytes-differ",
                    (Outcome::Err(_), Outcome::Err(_)) => "error-differs",
                    (Outcome::Ok(_), Outcome::Err(_)) => "ok-but-golden-err",
                    (Outcome::Err(_), Outcome::Ok(_)) => "err-but-golden-ok",
                    (Outcome::Panic(_), _) => "panic",
                    _ => "other",
                };
                res.violation(
                    &format!("isolation/{kind}"),
                    &format!("c07:isolation:{kind}:{fe}"),
                    format!(
                        "{where_}: response {} but the solo golden result of the same (document, configuration) is {}; mode {}, {} threads, {} context switches",
                        r.outcome.brief(),
                        g_for_fe.brief(),
                        scn.mode,
                        n,
                        switches
                    ),
                );
            }
            // --- protocol mapping of the front-end
            if fe == "router" || fe == "server-proc" {
                if let Some((status, ct)) = &r.http {
                    // (content types are not part of the statement; they go into the detail only)
                    let ok = match &r.outcome {
                        Outcome::Ok(_) => *status == 200,
                        Outcome::Err(_) => *status == 400,
                        _ => false,
                    };
                    if !ok {
                        res.violation(
                            "agreement/http-mapping",
                            "c07:http-mapping",
                            format!("{where_}: status {status} content-type '{ct}' for outcome {}", r.outcome.brief()),
                        );
                    }
                }
            }
            if r.notes.iter().any(|x| x == "silent-failure") {
                res.violation(
                    "agreement/silent-failure",
                    "c07:silent-failure",
                    format!("{where_}: child exited non-zero with an empty stderr"),
                );
            }
            // --- no damage: failed transform leaves an existing output file untouched;
            //     a successful one replaces it exactly (no stale tail)
            if fe == "cli-file" || fe == "cli-proc-file" {
                match (&g_for_fe, &r.req.out_pre) {
                    (Outcome::Err(_), Some(pre)) => {
                        res.stats.probe("failing_doc_with_existing_output");
                        if r.out_after.as_deref() != Some(sentinel(pre).as_slice()) {
                            res.violation(
                                "damage/output-touched-after-failure",
                                "c07:output-touched:failing-doc",
                                format!("{where_}: the transform failed but the existing output file is no longer byte-for-byte the sentinel"),
                            );
                        }
                    }
                    (Outcome::Err(_), None) => {
                        if r.out_after.is_some() {
                            res.violation(
                                "damage/output-created-after-failure",
                                "c07:output-created:failing-doc",
                                format!("{where_}: the transform failed but an output file now exists"),
                            );
                        }
                    }
                    (Outcome::Ok(gb), pre) => {
                        if pre.is_some() {
                            res.stats.probe("successful_overwrite_of_longer_file");
                        }
                        let same = match r.out_after.as_deref() {
                            Some(f) if local_styles && f != gb.as_slice() => {
                                let (ma, mb) = mask_local_id_pair(f, gb);
                                ma == mb
                            }
                            Some(f) => f == gb.as_slice(),
                            None => false,
                        };
                        if !same {
                            res.violation(
                                "agreement/output-file-differs",
                                &format!("c07:output-file-differs:{fe}"),
                                format!("{where_}: output file ({:?} bytes) is not exactly the golden output ({} bytes)", r.out_after.as_ref().map(|b| b.len()), gb.len()),
                            );
                        }
                    }
                    _ => {}
                }
                if r.in_after.as_deref() != Some(scn.docs[r.req.doc].0.as_slice()) {
                    res.violation(
                        "damage/input-modified",
                        "c07:input-modified",
                        format!("{where_}: the input file changed"),
                    );
                }
            }
        }
        if per_thread_count.values().any(|c| *c >= 2) {
            res.stats.probe("two_requests_same_thread");
        }
        res.stats.fingerprint = rng::mix(
            turnstile::switch_fingerprint(&log),
            rng::hash_str(&serde_json::to_string(&scn.threads).unwrap()),
        );
        res.stats.nontrivial = switches > 0 || !res.stats.faults.is_empty();
        res
    }

    fn shrink(&self, scenario: &Value) -> Vec<Value> {
        let scn: Scn = match serde_json::from_value(scenario.clone()) {
            Ok(s) => s,
            Err(_) => return vec![],
        };
        let mut out: Vec<Scn> = Vec::new();
        // drop threads, drop requests
        if scn.threads.len() > 1 {
            for i in 0..scn.threads.len() {
                let mut s = scn.clone();
                s.threads.remove(i);
                if i < s.stack_mib.len() {
                    s.stack_mib.remove(i);
                }
                s.schedule = None;
                out.push(s);
            }
        }
        for i in 0..scn.threads.len() {
            for j in 0..scn.threads[i].len() {
                if scn.threads.iter().map(|t| t.len()).sum::<usize>() <= 1 {
                    break;
                }
                let mut s = scn.clone();
                s.threads[i].remove(j);
                if s.threads[i].is_empty() {
                    s.threads.remove(i);
                    if i < s.stack_mib.len() {
                        s.stack_mib.remove(i);
                    }
                }
                s.schedule = None;
                out.push(s);
            }
        }
        // simplest schedule first
        if scn.policy != Policy::Sequential || scn.schedule.is_some() {
            let mut s = scn.clone();
            s.policy = Policy::Sequential;
            s.schedule = None;
            out.push(s);
        }
        // drop faults
        for i in 0..scn.threads.len() {
            for j in 0..scn.threads[i].len() {
                let r = &scn.threads[i][j];
                if r.rplan != ReadPlan::default() || r.wplan != WritePlan::default() {
                    let mut s = scn.clone();
                    s.threads[i][j].rplan = ReadPlan::default();
                    s.threads[i][j].wplan = WritePlan::default();
                    out.push(s);
                }
                if r.out_pre.is_some() {
                    let mut s = scn.clone();
                    s.threads[i][j].out_pre = None;
                    out.push(s);
                }
                if r.fe != "str" && r.alias.is_none() && r.fs_fault.is_none() && scn.docs[r.doc].as_str().is_some() {
                    let mut s = scn.clone();
                    s.threads[i][j].fe = "str".into();
                    s.threads[i][j].rplan = ReadPlan::default();
                    s.threads[i][j].wplan = WritePlan::default();
                    out.push(s);
                }
            }
        }
        // configurations to default
        for i in 0..scn.cfgs.len() {
            if scn.cfgs[i] != Cfg::default() {
                let mut s = scn.clone();
                s.cfgs[i] = Cfg::default();
                out.push(s);
            }
        }
        // documents
        for i in 0..scn.docs.len() {
            if !scn.threads.iter().flatten().any(|r| r.doc == i) {
                continue;
            }
            for c in xmltree::shrink_candidates(&scn.docs[i].0).into_iter().take(40) {
                let mut s = scn.clone();
                s.docs[i] = Doc(c);
                out.push(s);
            }
        }
        out.into_iter().map(|s| serde_json::to_value(s).unwrap()).collect()
    }

    fn rule(&self) -> &'static str {
        "run = one scenario: 2..5 documents (succeeding, failing, random-using, empty, non-UTF-8) x 1..4 configurations, 1..4 simulated threads with 1..4 requests each through str / stream (fault plans) / cli::run file->file / Router / real svgdx child; a seeded turnstile (sequential, uniform, sticky, PCT-like policies) interleaves the threads at every stream I/O call, element evaluation and request boundary. Every 4th scenario is a 'damage' scenario: hard stream faults, injected file-system faults, same-file aliases. Golden = solo execution per distinct (document, configuration), forward and reverse. distinct by (context-switch fingerprint of the decision list, request table); non-trivial = >= 1 context switch inside a request or >= 1 fired fault"
    }
    fn components_real(&self) -> Vec<&'static str> {
        vec![
            "svgdx library: transform_str, transform_stream",
            "cli::Config::from_cmdline + cli::run + transform_file on the real file system (tempfile, fs::copy)",
            "axum Router + Query/String extractors + handler (in-process)",
            "real svgdx binary as child process (sampled)",
        ]
    }
    fn components_stub(&self) -> Vec<&'static str> {
        vec![
            "thread scheduling choice (turnstile over real threads)",
            "byte streams of the stream API",
            "OS entropy and wall clock (libc seam)",
            "hyper / sockets below the Router; --watch mode never entered",
        ]
    }
    fn assumptions(&self) -> Vec<&'static str> {
        vec![
            "the transform path uses no OS synchronisation, so everything between two yield points is deterministic and the decision list is the interleaving",
            "the server endpoint can only express add_metadata; router requests use such configurations only",
            "child processes report errors in Debug form on stderr: only the outcome class and a non-empty message are compared for them",
            "an empty rendering answered with HTTP 400 'Empty response' by the server is a known finding (own signature)",
        ]
    }
}

fn w_bool(r: &mut Rng) -> bool {
    r.chance(1, 3)
}

#[allow(dead_code)]
fn unused(_: &Path) {}
