//! C15 — lexical scoping unaffected by re-evaluation.
//!
//! The *fault* is a forward reference placed inside a scoped program: it makes the
//! enclosing top-level construct fail between scope push and pop and be re-evaluated
//! later by the retry work-list. Each program is rendered twice: *back* (anchors first,
//! no retry: the fault-free configuration) and *fwd* (anchors last: retry). Probe
//! elements print variables; both variants must agree with an executable lexical
//! scoping model.

use crate::core::*;
use crate::frontends::*;
use crate::rng::{self, Rng};
use crate::xmltree::{self, Node};
use serde::{Deserialize, Serialize};
use serde_json::Value;
use std::collections::BTreeMap;

pub struct C15;

const NAMES: &[&str] = &["va", "vb", "vn", "vm", "fill", "vz"];

#[derive(Serialize, Deserialize, Clone, Debug, PartialEq)]
pub enum Expr {
    Lit(String),
    Copy(String),
    Concat(String, String),
    /// {{$name + k}} (name is one of the numeric variables)
    Inc(String, i64),
}

#[derive(Serialize, Deserialize, Clone, Debug, PartialEq)]
pub enum Stmt {
    Var(Vec<(String, Expr)>),
    Probe(u32),
    Group {
        attrs: Vec<(String, String)>,
        body: Vec<Stmt>,
        /// Some(k): the group carries id="G<k>:va=${va};vn=${vn};fill=${fill}", which must be
        /// evaluated in the scope OUTSIDE the group (its own attributes shadow for
        /// descendants only)
        #[serde(default)]
        idprobe: Option<u32>,
    },
    Reuse { tmpl: usize, inst: u32, attrs: Vec<(String, Expr)> },
    Loop { count: u32, body: Vec<Stmt> },
    /// test on a numeric variable: lt($name, k)
    IfLt { name: String, k: i64, body: Vec<Stmt> },
    /// element with a forward reference to anchor k
    Fault(u32),
    Shape,
}

#[derive(Serialize, Deserialize, Clone, Debug, PartialEq)]
pub struct Scn {
    /// "plain" | "defer-read" | "global-assign-faulted"
    pub class: String,
    pub templates: Vec<Vec<Stmt>>,
    pub body: Vec<Stmt>,
    pub anchors: u32,
    /// named <reuse id=.. href="#tK" ..attrs/> entries placed inside <specs> (derived
    /// templates): they define nothing outside themselves
    #[serde(default)]
    pub derived: Vec<(usize, Vec<(String, String)>)>,
    /// a <defaults> block whose entries carry attributes named like the probed variables:
    /// defaults style elements, they never define variables
    #[serde(default)]
    pub defaults: bool,
    /// a small var-limit (class "plain" only): an assignment or reuse attribute value longer
    /// than this must make the transform fail - never resolve to something else instead
    #[serde(default)]
    pub var_limit: Option<u32>,
    /// append a group whose id contains a variable that only the group itself defines
    /// (id="Q$vq" vq="x": the id stays "Q$vq") and a reference to "#Qx": that reference can
    /// never be satisfied, the transform must fail
    #[serde(default)]
    pub phantom: bool,
    /// fixed-form constructs appended to the body, each with its own expected text:
    /// bit 0 "chain": a reuse of a reuse (the outer attributes enclose everything the inner
    /// one instantiates); bit 1 "leaf": reuse of a rendered leaf with a variable overridden;
    /// bit 2 "waiting-reuse": an empty <reuse> with an attribute whose first attempt fails,
    /// and a later read of that name outside it. `addon_variant` selects spellings.
    /// also send the program to a real svgdx-server, after requests which define every probed
    /// name at top level have been through all of its worker threads
    #[serde(default)]
    pub server_pass: bool,
    /// the document is a fragment: no root <svg> element around the body
    #[serde(default)]
    pub fragment: bool,
    #[serde(default)]
    pub addons: u8,
    #[serde(default)]
    pub addon_variant: u8,
}

/// (document text for <specs>, document text appended to the body, expected marker texts)
fn addon_parts(scn: &Scn) -> (String, String, Vec<(String, Vec<String>)>) {
    let (mut specs, mut body, mut expect) = (String::new(), String::new(), Vec::new());
    let v = scn.addon_variant;
    if scn.addons & 1 != 0 {
        // chain: #chb is an empty reuse of #cha; the outer reuse defines vs (and the middle one
        // may define vt); an outer binding of both names exists
        let target = if v & 1 == 0 {
            "<text id=\"cha\" xy=\"0 95\" text=\"CH:s=${vs};t=${vt};\"/>".to_string()
        } else {
            "<g id=\"cha\"><text xy=\"0 95\" text=\"CH:s=${vs};t=${vt};\"/></g>".to_string()
        };
        let mid_t = v & 2 != 0;
        specs.push_str(&format!("    {target}\n    <reuse id=\"chb\" href=\"#cha\"{}/>\n", if mid_t { " vt=\"mid\"" } else { "" }));
        body.push_str("  <var vs=\"OUT\" vt=\"OUTT\"/>\n  <reuse href=\"#chb\" vs=\"five\"/>\n");
        expect.push(("CH:".to_string(), vec![format!("CH:s=five;t={};", if mid_t { "mid" } else { "OUTT" })]));
    }
    if scn.addons & 2 != 0 {
        // a rendered leaf (not in <specs>) reads a variable defined where it is written; a
        // reuse of it overrides the variable
        if v & 4 == 0 {
            body.push_str("  <var vl=\"A\"/>\n  <text id=\"lr\" xy=\"0 96\" text=\"LR:${vl};\"/>\n  <reuse href=\"#lr\" vl=\"B\"/>\n");
        } else {
            body.push_str("  <g vl=\"A\"><text id=\"lr\" xy=\"0 96\" text=\"LR:${vl};\"/></g>\n  <reuse href=\"#lr\" vl=\"B\"/>\n");
        }
        expect.push(("LR:".to_string(), vec!["LR:A;".to_string(), "LR:B;".to_string()]));
    }
    if scn.addons & 4 != 0 {
        // an empty <reuse> carrying an attribute; its first attempt fails after its scope was
        // pushed (own forward position, or a target which is itself waiting); the name is
        // read again outside
        let outer = v & 8 != 0;
        if outer {
            body.push_str("  <var vfr=\"outer\"/>\n");
        }
        if v & 16 == 0 {
            specs.push_str("    <rect id=\"fr\" wh=\"2\"/>\n");
            body.push_str("  <reuse href=\"#fr\" xy=\"#frlater|h\" vfr=\"red\"/>\n");
        } else {
            body.push_str("  <rect id=\"fr\" xy=\"#frlater|v\" wh=\"2\"/>\n  <reuse href=\"#fr\" vfr=\"red\" x=\"3\" y=\"99\"/>\n");
        }
        body.push_str("  <text xy=\"0 97\" text=\"FR:${vfr};\"/>\n  <rect id=\"frlater\" xy=\"0 98\" wh=\"1\"/>\n");
        expect.push(("FR:".to_string(), vec![if outer { "FR:outer;".to_string() } else { "FR:${vfr};".to_string() }]));
    }
    if scn.addons & 8 != 0 {
        // attribute names which are not identifiers are variables all the same
        let outer = v & 1 != 0;
        if outer {
            body.push_str("  <var data-v=\"OUT\" stroke-width=\"9\"/>\n");
        }
        body.push_str("  <g data-v=\"in\" stroke-width=\"7\"><text xy=\"0 94\" text=\"HY:${data-v};${stroke-width};\"/></g>\n  <text xy=\"0 95\" text=\"HZ:${data-v};${stroke-width};\"/>\n");
        specs.push_str("    <text id=\"hyr\" xy=\"0 94\" text=\"HR:${data-v};\"/>\n");
        body.push_str("  <reuse href=\"#hyr\" data-v=\"rin\"/>\n");
        expect.push(("HY:".to_string(), vec!["HY:in;7;".to_string()]));
        expect.push(("HZ:".to_string(), vec![if outer { "HZ:OUT;9;".to_string() } else { "HZ:${data-v};${stroke-width};".to_string() }]));
        expect.push(("HR:".to_string(), vec!["HR:rin;".to_string()]));
    }
    if scn.addons & 16 != 0 {
        // an empty value is a value: it shadows, and it is not "undefined"
        body.push_str("  <var ve=\"outer\"/>\n  <g><var ve=\"\"/><text xy=\"0 93\" text=\"EM:[${ve}];\"/></g>\n  <text xy=\"0 92\" text=\"EN:[${ve}];\"/>\n  <var vt=\"\"/>\n  <text xy=\"0 91\" text=\"ET:[${vt}];\"/>\n");
        body.push_str("  <g ve=\"\"><text xy=\"0 90\" text=\"EG:[${ve}];\"/></g>\n");
        expect.push(("EM:".to_string(), vec!["EM:[];".to_string()]));
        expect.push(("EN:".to_string(), vec!["EN:[outer];".to_string()]));
        expect.push(("ET:".to_string(), vec!["ET:[];".to_string()]));
        expect.push(("EG:".to_string(), vec!["EG:[];".to_string()]));
    }
    if scn.addons & 32 != 0 {
        // "values set by <var> inside an element's content are discarded when that element
        // closes": also when the element is not a <g>
        let outer = v & 1 != 0;
        if outer {
            body.push_str("  <var vc=\"top\"/>\n");
        }
        // (the assignment inside <a> is spelled with a self-closing or with an end tag; a loop
        // variable is an assignment too)
        let var_in_a = if v & 2 == 0 { "<var vc=\"ina\"/>" } else { "<var vc=\"ina\"></var>" };
        body.push_str(&format!("  <defs><var vc=\"indefs\"/></defs>\n  <a href=\"#\">{var_in_a}<loop count=\"1\" loop-var=\"vi\"><rect xy=\"0 86\" wh=\"1\"/></loop><text xy=\"0 88\" text=\"CI:${{vc}};\"/></a>\n  <switch><var vc=\"insw\"></var><rect xy=\"0 87\" wh=\"1\"/></switch>\n  <text xy=\"0 89\" text=\"CO:${{vc}};CL:${{vi}};\"/>\n"));
        expect.push(("CI:".to_string(), vec!["CI:ina;".to_string()]));
        expect.push(("CO:".to_string(), vec![if outer { "CO:top;CL:${vi};".to_string() } else { "CO:${vc};CL:${vi};".to_string() }]));
    }
    if scn.fragment {
        expect.push(("FG:".to_string(), vec!["FG:${vfg};${vfh};".to_string()]));
    }
    if scn.addons & 64 != 0 {
        // the same value text read through the evaluator in two scopes where it means
        // different things
        for (wv, y) in [(5, 85), (7, 82)] {
            body.push_str(&format!(
                "  <g w=\"{wv}\"><g k=\"$w\"><g m=\"$k\"><if test=\"eq($k, {wv})\"><text xy=\"0 {y}\" text=\"LT:{wv};\"/></if><text xy=\"0 {}\" text=\"LM:{{{{$m}}}};\"/></g></g></g>\n",
                y - 1
            ));
        }
        expect.push(("LM:".to_string(), vec!["LM:5;".to_string(), "LM:7;".to_string()]));
        expect.push(("LT:".to_string(), vec!["LT:5;".to_string(), "LT:7;".to_string()]));
    }
    (specs, body, expect)
}

/// texts in the output which start with `marker`, in document order
fn addon_texts(out: &str, marker: &str) -> Vec<String> {
    let mut v = Vec::new();
    let mut rest = out;
    while let Some(p) = rest.find(marker) {
        let after = &rest[p..];
        let end = after.find('<').unwrap_or(after.len());
        v.push(after[..end].trim().to_string());
        rest = &after[end.min(after.len()).max(1)..];
    }
    v
}

// ---------------------------------------------------------------------------------------------
// generation

struct Gen<'a> {
    rng: &'a mut Rng,
    next_probe: u32,
    next_inst: u32,
    anchors: u32,
    n_templates: usize,
    class: &'static str,
    template_faulted: Vec<bool>,
}

impl<'a> Gen<'a> {
    fn lit_text(&mut self) -> String {
        format!("{}{}", self.rng.pick(&["x", "y", "q", "w"]), self.rng.below(50))
    }
    fn var_stmt(&mut self) -> Stmt {
        let mut v: Vec<(String, Expr)> = Vec::new();
        let n = 1 + self.rng.usize(3);
        for _ in 0..n {
            let name = *self.rng.pick(&["va", "vb", "vn", "vm", "fill"]);
            if v.iter().any(|(k, _)| k == name) {
                continue;
            }
            let e = match name {
                "vn" | "vm" => match self.rng.below(4) {
                    0 => Expr::Lit(self.rng.below(20).to_string()),
                    1 => Expr::Copy(if name == "vn" { "vm" } else { "vn" }.to_string()),
                    _ => Expr::Inc(self.rng.pick(&["vn", "vm"]).to_string(), self.rng.range(1, 5)),
                },
                "fill" => Expr::Lit(self.rng.pick(&["red", "blue", "green", "gold"]).to_string()),
                _ => match self.rng.below(4) {
                    0 => Expr::Copy(self.rng.pick(&["va", "vb"]).to_string()),
                    1 => Expr::Concat(self.rng.pick(&["va", "vb"]).to_string(), self.lit_text()),
                    _ => Expr::Lit(self.lit_text()),
                },
            };
            v.push((name.to_string(), e));
        }
        Stmt::Var(v)
    }
    fn probe(&mut self) -> Stmt {
        self.next_probe += 1;
        Stmt::Probe(self.next_probe)
    }
    fn fault(&mut self) -> Stmt {
        self.anchors += 1;
        Stmt::Fault(self.anchors)
    }
    fn group_attrs(&mut self) -> Vec<(String, String)> {
        let mut a = Vec::new();
        if self.rng.chance(2, 3) {
            a.push(("fill".to_string(), self.rng.pick(&["red", "blue", "green", "gold"]).to_string()));
        }
        if self.rng.chance(1, 2) {
            a.push(("va".to_string(), self.lit_text()));
        }
        if self.rng.chance(1, 3) {
            a.push(("vn".to_string(), self.rng.below(20).to_string()));
        }
        a
    }
    /// A statement list. `fault` = may contain forward references; `no_assign` = an
    /// earlier statement at this scope level contains a forward reference, so (class
    /// "plain" only) nothing may assign at this level any more. Returns the body and
    /// whether it contains a forward reference at this scope level (through loop/if and
    /// nested scopes alike: any of them makes this level's work-list retry something).
    fn scoped_body(&mut self, depth: usize, fault: bool, in_template: bool, no_assign_in: bool) -> (Vec<Stmt>, bool) {
        // hazard separation between the three program classes:
        //  plain                  neither hazard
        //  defer-read             assignments may follow a faulted construct at its level
        //  global-assign-faulted  faulted loop/if bodies may assign
        let enforce_no_assign_after = self.class != "defer-read";
        let faulted_transparent_must_not_assign = self.class != "global-assign-faulted";
        let mut no_assign = no_assign_in;
        let mut b = Vec::new();
        let n = 1 + self.rng.usize(5);
        let mut faulted = false;
        for _ in 0..n {
            match self.rng.below(12) {
                0..=2 => {
                    if no_assign {
                        b.push(self.probe());
                    } else {
                        b.push(self.var_stmt());
                    }
                }
                3..=4 => b.push(self.probe()),
                5 if depth < 3 => {
                    let attrs = self.group_attrs();
                    let (body, f) = self.scoped_body(depth + 1, fault, in_template, false);
                    if f {
                        faulted = true;
                        no_assign |= enforce_no_assign_after;
                    }
                    let idprobe = if self.rng.chance(1, 3) {
                        self.next_probe += 1;
                        Some(self.next_probe)
                    } else {
                        None
                    };
                    b.push(Stmt::Group { attrs, body, idprobe });
                }
                6 | 7 if depth < 3 => {
                    // transparent constructs: their assignments land at this scope level
                    let (body, f) = if faulted_transparent_must_not_assign {
                        if fault && self.rng.chance(1, 2) {
                            // faulted, therefore non-assigning
                            self.scoped_body(depth + 1, true, in_template, true)
                        } else {
                            self.scoped_body(depth + 1, false, in_template, no_assign)
                        }
                    } else {
                        self.scoped_body(depth + 1, fault, in_template, no_assign)
                    };
                    if f {
                        faulted = true;
                        no_assign |= enforce_no_assign_after;
                    }
                    if self.rng.chance(1, 2) {
                        let count = 1 + self.rng.below(3) as u32;
                        b.push(Stmt::Loop { count, body });
                    } else {
                        b.push(Stmt::IfLt {
                            name: self.rng.pick(&["vn", "vm"]).to_string(),
                            k: self.rng.range(0, 25),
                            body,
                        });
                    }
                }
                8 if !in_template && self.n_templates > 0 && depth < 3 => {
                    let r = self.reuse();
                    let mut keep = true;
                    if let Stmt::Reuse { tmpl, .. } = &r {
                        if self.template_faulted[*tmpl] {
                            if fault {
                                faulted = true;
                                no_assign |= enforce_no_assign_after;
                            } else {
                                // this body was promised to be free of forward references
                                keep = false;
                            }
                        }
                    }
                    b.push(if keep { r } else { Stmt::Shape });
                }
                9 | 10 if fault => {
                    b.push(self.fault());
                    faulted = true;
                    no_assign |= enforce_no_assign_after;
                }
                _ => b.push(Stmt::Shape),
            }
        }
        if self.rng.chance(1, 2) {
            b.push(self.probe());
        }
        (b, faulted)
    }
    fn reuse(&mut self) -> Stmt {
        self.next_inst += 1;
        let mut attrs = Vec::new();
        if self.rng.chance(1, 2) {
            let mut t = self.lit_text();
            if self.rng.chance(1, 3) {
                // long enough to cross a small var-limit
                t.push_str("longvalue01");
            }
            attrs.push(("va".to_string(), Expr::Lit(t)));
        }
        if self.rng.chance(1, 2) {
            attrs.push(("vb".to_string(), Expr::Copy(self.rng.pick(&["va", "vb"]).to_string())));
        }
        if self.rng.chance(1, 3) {
            attrs.push(("fill".to_string(), Expr::Lit("gold".to_string())));
        }
        Stmt::Reuse {
            tmpl: self.rng.usize(self.n_templates),
            inst: self.next_inst,
            attrs,
        }
    }
}

fn contains_fault(b: &[Stmt]) -> bool {
    b.iter().any(|s| match s {
        Stmt::Fault(_) => true,
        Stmt::Group { body, .. } | Stmt::Loop { body, .. } | Stmt::IfLt { body, .. } => contains_fault(body),
        _ => false,
    })
}

// ---------------------------------------------------------------------------------------------
// rendering

fn render_expr(e: &Expr) -> String {
    match e {
        Expr::Lit(s) => s.clone(),
        Expr::Copy(n) => format!("${n}"),
        Expr::Concat(n, s) => format!("${{{n}}}{s}"),
        Expr::Inc(n, k) => format!("{{{{${n} + {k}}}}}"),
    }
}

fn probe_text(id: u32, in_template: bool) -> String {
    let mut s = if in_template {
        format!("P{id}i${{inst}}:")
    } else {
        format!("P{id}:")
    };
    for n in NAMES {
        s.push_str(&format!("{n}=${{{n}}};"));
    }
    s
}

fn render_body(b: &[Stmt], ind: usize, in_template: bool, out: &mut String, line: &mut u32) {
    let pad = "  ".repeat(ind);
    for s in b {
        *line += 1;
        match s {
            Stmt::Var(v) => {
                out.push_str(&format!("{pad}<var"));
                for (k, e) in v {
                    out.push_str(&format!(" {k}=\"{}\"", render_expr(e)));
                }
                out.push_str("/>\n");
            }
            Stmt::Probe(id) => {
                out.push_str(&format!("{pad}<text xy=\"0 {line}\" text=\"{}\"/>\n", probe_text(*id, in_template)));
            }
            Stmt::Group { attrs, body, idprobe } => {
                out.push_str(&format!("{pad}<g"));
                if let Some(k) = idprobe {
                    let inst = if in_template { "i${inst}" } else { "" };
                    out.push_str(&format!(" id=\"G{k}{inst}:va=${{va}};vn=${{vn}};fill=${{fill}};\""));
                }
                for (k, v) in attrs {
                    out.push_str(&format!(" {k}=\"{v}\""));
                }
                out.push_str(">\n");
                render_body(body, ind + 1, in_template, out, line);
                out.push_str(&format!("{pad}</g>\n"));
            }
            Stmt::Reuse { tmpl, inst, attrs } => {
                out.push_str(&format!("{pad}<reuse href=\"#t{tmpl}\" inst=\"{inst}\""));
                for (k, e) in attrs {
                    out.push_str(&format!(" {k}=\"{}\"", render_expr(e)));
                }
                out.push_str("/>\n");
            }
            Stmt::Loop { count, body } => {
                out.push_str(&format!("{pad}<loop count=\"{count}\">\n"));
                render_body(body, ind + 1, in_template, out, line);
                out.push_str(&format!("{pad}</loop>\n"));
            }
            Stmt::IfLt { name, k, body } => {
                out.push_str(&format!("{pad}<if test=\"lt(${name}, {k})\">\n"));
                render_body(body, ind + 1, in_template, out, line);
                out.push_str(&format!("{pad}</if>\n"));
            }
            Stmt::Fault(k) => {
                out.push_str(&format!("{pad}<rect xy=\"#anchor{k}|h\" wh=\"2\"/>\n"));
            }
            Stmt::Shape => {
                out.push_str(&format!("{pad}<rect xy=\"{line} 0\" wh=\"1\"/>\n"));
            }
        }
    }
}

pub fn render(scn: &Scn, fwd: bool) -> String {
    // (a fragment has no root element; a fragment whose first element opens a scope is the
    // interesting one, so a group goes first)
    let mut s = if scn.fragment { String::from("<g vfg=\"fg\"><rect xy=\"0 99\" wh=\"1\"/><var vfh=\"fh\"/></g>\n") } else { String::from("<svg>\n") };
    let anchors: String = (1..=scn.anchors)
        .map(|k| format!("  <rect id=\"anchor{k}\" xy=\"{} 50\" wh=\"3\"/>\n", k * 5))
        .collect();
    if !fwd {
        s.push_str(&anchors);
    }
    let mut line = 0;
    if !scn.templates.is_empty() {
        s.push_str("  <specs>\n");
        for (i, t) in scn.templates.iter().enumerate() {
            s.push_str(&format!("    <g id=\"t{i}\">\n"));
            render_body(t, 3, true, &mut s, &mut line);
            s.push_str("    </g>\n");
        }
        for (k, (t, attrs)) in scn.derived.iter().enumerate() {
            s.push_str(&format!("    <reuse id=\"d{k}\" href=\"#t{t}\" inst=\"9{k}\""));
            for (a, v) in attrs {
                s.push_str(&format!(" {a}=\"{v}\""));
            }
            s.push_str("/>\n");
        }
        s.push_str("  </specs>\n");
    }
    let (addon_specs, addon_body, _) = addon_parts(scn);
    if !addon_specs.is_empty() {
        s.push_str(&format!("  <specs>\n{addon_specs}  </specs>\n"));
    }
    if scn.defaults {
        s.push_str("  <defaults><_ match=\"rect text var\" vz=\"DLEAK\" fill=\"dleak\"/><rect va=\"dva\"/><text vb=\"dvb\"/><g vz=\"GLEAK\" vm=\"77\"/><_ match=\"g\" fill=\"gleak\"/></defaults>\n");
    }
    render_body(&scn.body, 1, false, &mut s, &mut line);
    s.push_str(&addon_body);
    if scn.phantom {
        s.push_str("  <g id=\"Q$vq\" vq=\"x\"><rect xy=\"1 90\" wh=\"1\"/><var vq=\"x\"/></g>\n  <rect xy=\"#Qx|h\" wh=\"1\"/>\n");
    }
    if fwd {
        s.push_str(&anchors);
    }
    if scn.fragment {
        // what the leading group defined is gone again
        s.push_str("<text xy=\"0 98\" text=\"FG:${vfg};${vfh};\"/>\n");
    } else {
        s.push_str("</svg>\n");
    }
    s
}

// ---------------------------------------------------------------------------------------------
// reference model: a stack of scopes, innermost first

struct Model<'a> {
    scopes: Vec<BTreeMap<String, String>>,
    templates: &'a [Vec<Stmt>],
    obs: Vec<(String, String)>,
    /// per observation: was it made inside a construct whose execution reaches a forward
    /// reference (so svgdx re-evaluates that construct as a whole)?
    inside: Vec<bool>,
    /// open constructs: (reached a forward reference, indices of observations made inside)
    frames: Vec<(bool, Vec<usize>)>,
    steps: u32,
    var_limit: usize,
    /// an executed assignment / reuse attribute exceeded var-limit: the transform must fail
    rejected: bool,
}

impl<'a> Model<'a> {
    fn get(&self, n: &str) -> Option<String> {
        self.scopes.iter().rev().find_map(|s| s.get(n).cloned())
    }
    fn num(&self, n: &str) -> Option<i64> {
        self.get(n)?.parse().ok()
    }
    fn eval(&self, e: &Expr) -> Option<String> {
        Some(match e {
            Expr::Lit(s) => s.clone(),
            Expr::Copy(n) => self.get(n).unwrap_or_else(|| format!("${n}")),
            Expr::Concat(n, s) => format!("{}{}", self.get(n).unwrap_or_else(|| format!("${{{n}}}")), s),
            Expr::Inc(n, k) => (self.num(n)? + k).to_string(),
        })
    }
    fn close_frame(&mut self) {
        if let Some((reached, idxs)) = self.frames.pop() {
            if reached {
                for i in idxs {
                    self.inside[i] = true;
                }
            }
        }
    }
    fn set(&mut self, k: &str, v: String) {
        self.scopes.last_mut().unwrap().insert(k.to_string(), v);
    }
    /// None = the program leaves the modelled fragment (e.g. arithmetic on a non-number)
    fn exec(&mut self, b: &[Stmt], inst: Option<u32>) -> Option<()> {
        for s in b {
            self.steps += 1;
            if self.steps > 5000 {
                return None;
            }
            if self.rejected {
                return Some(());
            }
            match s {
                Stmt::Var(v) => {
                    let vals: Option<Vec<(String, String)>> =
                        v.iter().map(|(k, e)| self.eval(e).map(|x| (k.clone(), x))).collect();
                    for (k, x) in vals? {
                        if x.contains('$') {
                            // a stored value containing '$' may be expanded again later
                            // (attributes are evaluated more than once): outside the model
                            return None;
                        }
                        if x.len() > self.var_limit {
                            self.rejected = true;
                            return Some(());
                        }
                        self.set(&k, x);
                    }
                }
                Stmt::Probe(id) => {
                    let key = match inst {
                        Some(i) => format!("P{id}i{i}"),
                        None => format!("P{id}"),
                    };
                    let mut t = String::new();
                    for n in NAMES {
                        t.push_str(&format!("{n}={};", self.get(n).unwrap_or_else(|| format!("${{{n}}}"))));
                    }
                    let idx = self.obs.len();
                    self.obs.push((key, t));
                    self.inside.push(false);
                    for f in self.frames.iter_mut() {
                        f.1.push(idx);
                    }
                }
                Stmt::Group { attrs, body, idprobe } => {
                    // the id is evaluated whenever the group is: it belongs to the group's frame
                    self.frames.push((false, vec![]));
                    if let Some(k) = idprobe {
                        let mut t = String::new();
                        for n in ["va", "vn", "fill"] {
                            t.push_str(&format!("{n}={};", self.get(n).unwrap_or_else(|| format!("${{{n}}}"))));
                        }
                        let idx = self.obs.len();
                        let key = match inst {
                            Some(i) => format!("G{k}i{i}"),
                            None => format!("G{k}"),
                        };
                        self.obs.push((key, t));
                        self.inside.push(false);
                        for f in self.frames.iter_mut() {
                            f.1.push(idx);
                        }
                    }
                    self.scopes.push(attrs.iter().cloned().collect());
                    self.exec(body, inst)?;
                    self.close_frame();
                    self.scopes.pop();
                }
                Stmt::Reuse { tmpl, inst: i, attrs } => {
                    let mut sc: BTreeMap<String, String> = BTreeMap::new();
                    for (k, e) in attrs {
                        let x = self.eval(e)?;
                        if x.contains('$') {
                            return None;
                        }
                        if x.len() > self.var_limit {
                            self.rejected = true;
                            return Some(());
                        }
                        sc.insert(k.clone(), x);
                    }
                    sc.insert("inst".into(), i.to_string());
                    self.scopes.push(sc);
                    self.scopes.push(BTreeMap::new());
                    let t = self.templates.get(*tmpl)?;
                    self.frames.push((false, vec![]));
                    self.exec(t, Some(*i))?;
                    self.close_frame();
                    self.scopes.pop();
                    self.scopes.pop();
                }
                Stmt::Loop { count, body } => {
                    self.frames.push((false, vec![]));
                    for _ in 0..*count {
                        self.exec(body, inst)?;
                    }
                    self.close_frame();
                }
                Stmt::IfLt { name, k, body } => {
                    if self.num(name)? < *k {
                        self.frames.push((false, vec![]));
                        self.exec(body, inst)?;
                        self.close_frame();
                    }
                }
                Stmt::Fault(_) => {
                    for f in self.frames.iter_mut() {
                        f.0 = true;
                    }
                }
                Stmt::Shape => {}
            }
        }
        Some(())
    }
}

pub fn model(scn: &Scn) -> Option<(Vec<(String, String)>, Vec<bool>, bool)> {
    let mut m = Model {
        scopes: vec![BTreeMap::new()],
        templates: &scn.templates,
        obs: Vec::new(),
        inside: Vec::new(),
        frames: Vec::new(),
        steps: 0,
        var_limit: scn.var_limit.map(|v| v as usize).unwrap_or(usize::MAX),
        rejected: false,
    };
    m.exec(&scn.body, None)?;
    Some((m.obs, m.inside, m.rejected))
}

/// probe observations of an output, in output order
pub fn observations(out: &str) -> Option<Vec<(String, String)>> {
    let tree = xmltree::parse(out)?;
    let mut all = Vec::new();
    xmltree::walk(&tree, &mut all);
    let mut obs = Vec::new();
    for n in all {
        if let Node::Elem { name, .. } = n {
            if name == "g" {
                if let Some(id) = n.attr("id") {
                    if id.starts_with('G') {
                        if let Some((k, v)) = id.split_once(':') {
                            obs.push((k.to_string(), v.to_string()));
                        }
                    }
                }
            }
            if name == "text" {
                let t = n.text();
                if t.starts_with('P') {
                    if let Some((k, v)) = t.split_once(':') {
                        obs.push((k.to_string(), v.to_string()));
                    }
                }
            }
        }
    }
    Some(obs)
}

impl Engine for C15 {
    fn id(&self) -> &'static str {
        "C15"
    }
    fn runs(&self, tier: Tier) -> u64 {
        match tier {
            Tier::Quick => 4000,
            Tier::Thorough => 200000,
        }
    }

    fn generate(&self, seed: u64, index: u64, _tier: Tier, _env: &WorkerEnv) -> Value {
        let rs = rng::run_seed(seed, "C15", index);
        let mut w = Rng::sub(rs, "workload");
        let class = match index % 10 {
            0..=6 => "plain",
            7 | 8 => "defer-read",
            _ => "global-assign-faulted",
        };
        let n_templates = w.usize(3);
        let mut g = Gen {
            rng: &mut w,
            next_probe: 0,
            next_inst: 0,
            anchors: 0,
            n_templates: 0,
            class,
            template_faulted: Vec::new(),
        };
        let mut templates = Vec::new();
        for _ in 0..n_templates {
            let fault = g.rng.chance(1, 2);
            let (t, f) = g.scoped_body(1, fault, true, false);
            templates.push(t);
            g.template_faulted.push(f);
        }
        g.n_templates = n_templates;
        let mut body = Vec::new();
        // prologue: define the numeric variables so arithmetic is always in the model
        let mut prologue = vec![
            ("vn".to_string(), Expr::Lit(g.rng.below(10).to_string())),
            ("vm".to_string(), Expr::Lit(g.rng.below(10).to_string())),
        ];
        // mostly define the text variables too, so copies stay inside the model
        if g.rng.chance(3, 4) {
            prologue.push(("va".to_string(), Expr::Lit(g.lit_text())));
            prologue.push(("vb".to_string(), Expr::Lit(g.lit_text())));
        }
        body.push(Stmt::Var(prologue));
        let mut no_assign = false;
        let parts = 1 + g.rng.usize(3);
        for _ in 0..parts {
            let (b, f) = g.scoped_body(0, true, false, no_assign);
            no_assign |= f && class != "defer-read";
            body.extend(b);
        }
        // trailing probe reads every name
        body.push(g.probe());
        let anchors = g.anchors;
        let var_limit = if class == "plain" && index % 6 == 4 { Some(8 + (index % 5) as u32) } else { None };
        if var_limit.is_some() {
            // templates are evaluated once at definition time with their parameters still
            // unexpanded; keep that pass from growing placeholder text past a small limit
            fn literal_only(b: &mut [Stmt]) {
                for s in b.iter_mut() {
                    match s {
                        Stmt::Var(v) => {
                            for (k, e) in v.iter_mut() {
                                if matches!(e, Expr::Concat(..) | Expr::Copy(..)) {
                                    *e = Expr::Lit(if k == "vn" || k == "vm" { "3".into() } else { "z9".into() });
                                }
                            }
                        }
                        Stmt::Group { body, .. } | Stmt::Loop { body, .. } | Stmt::IfLt { body, .. } => literal_only(body),
                        _ => {}
                    }
                }
            }
            for t in templates.iter_mut() {
                literal_only(t);
            }
        }
        let mut derived = Vec::new();
        if n_templates > 0 && g.rng.chance(1, 3) {
            let nd = 1 + g.rng.usize(2);
            for _ in 0..nd {
                let mut attrs = vec![("va".to_string(), format!("D{}", g.rng.below(50)))];
                if g.rng.chance(1, 2) {
                    attrs.push(("fill".to_string(), "pink".to_string()));
                }
                if g.rng.chance(1, 2) {
                    attrs.push(("vz".to_string(), "leak".to_string()));
                }
                derived.push((g.rng.usize(n_templates), attrs));
            }
        }
        serde_json::to_value(Scn {
            class: class.to_string(),
            templates,
            body,
            anchors,
            derived,
            defaults: index % 5 == 2,
            var_limit,
            phantom: index % 12 == 7,
            server_pass: index % 16 == 11 && var_limit.is_none(),
            fragment: index % 8 == 5 && n_templates == 0,
            addons: if index % 3 == 1 && var_limit.is_none() { 1 << (index / 3 % 7) } else { 0 },
            addon_variant: (index / 21 % 32) as u8,
        })
        .unwrap()
    }

    fn execute(&self, scenario: &Value, env: &WorkerEnv) -> RunResult {
        let mut res = RunResult::default();
        let scn: Scn = match serde_json::from_value(scenario.clone()) {
            Ok(s) => s,
            Err(e) => {
                res.harness_error = Some(format!("bad scenario: {e}"));
                return res;
            }
        };
        let (expect, expect_inside, expect_rejected) = match model(&scn) {
            Some(m) => m,
            None => {
                res.stats.probe("program_outside_model");
                res.stats.evaluations = 1;
                return res;
            }
        };
        let mut cfg = Cfg::default();
        cfg.add_auto_styles = false;
        if let Some(l) = scn.var_limit {
            cfg.var_limit = l;
        }
        let back = render(&scn, false);
        let fwd = render(&scn, true);
        let (b2, f2, c2) = (back.clone(), fwd.clone(), cfg.clone());
        let outs = on_thread(STACK_MAIN, move || {
            (fe_stream_plain(b2.as_bytes(), &c2), fe_stream_plain(f2.as_bytes(), &c2))
        });
        let ((ob, pb), (of, pf)) = match outs {
            Ok(v) => v,
            Err(e) => {
                res.harness_error = Some(e);
                return res;
            }
        };
        res.stats.evaluations = 2;
        res.stats.fingerprint = rng::hash_str(&serde_json::to_string(&scn).unwrap());
        let mut retried = false;
        for (name, p) in [("back", &pb), ("fwd", &pf)] {
            if let Some(p) = p {
                res.stats.steps += p.attempts;
                if name == "fwd" {
                    retried = p.failed_attempts > 0;
                    res.stats.probe_n("fwd_failed_attempts", p.failed_attempts);
                    res.stats.probe_n("fwd_failures_inside_open_scope", p.failures_in_scope);
                    res.stats.probe_n("fwd_dirty_failed_attempts", p.dirty_failures);
                    if p.scope_height > 1 || p.element_height > 0 {
                        res.stats.probe("fwd_end_state_scope_leak");
                    }
                } else if p.failed_attempts > 0 {
                    res.stats.probe("back_variant_retried");
                }
            }
        }
        res.stats.nontrivial = retried;
        if scn.server_pass && !scn.phantom {
            // what the library makes of the program is what the server must make of it, whatever
            // its worker threads have served before
            let pollute = "<svg><var va=\"LEAK\" vb=\"LEAK\" vn=\"77\" vm=\"77\" fill=\"LEAK\" vz=\"LEAK\" vs=\"LEAK\" vt=\"LEAK\" vl=\"LEAK\" vfr=\"LEAK\" ve=\"LEAK\" data-v=\"LEAK\" stroke-width=\"LEAK\" inst=\"LEAK\"/><defaults><text va=\"DLEAK\"/></defaults><rect wh=\"1\"/></svg>";
            match ServerChild::start(env, server_port()) {
                Err(e) => {
                    res.harness_error = Some(format!("svgdx-server: {e}"));
                    return res;
                }
                Ok(mut srv) => {
                    let _ = http_burst(srv.port, pollute.as_bytes(), None, 24, 2, std::time::Duration::from_secs(20));
                    // (and the same as a fragment: without a root element the assignments are
                    // made in the document-level scope itself)
                    let frag = pollute.replace("<svg>", "").replace("</svg>", "");
                    let _ = http_burst(srv.port, frag.as_bytes(), None, 24, 2, std::time::Duration::from_secs(20));
                    res.stats.probe("program_sent_to_a_server_with_history");
                    let lib_obs = match &ob {
                        Outcome::Ok(b) => observations(&String::from_utf8_lossy(b)),
                        _ => None,
                    };
                    for _ in 0..6 {
                        let h = srv.post(back.as_bytes(), None, std::time::Duration::from_secs(20));
                        res.stats.evaluations += 1;
                        let differs = match (&h, &ob) {
                            (Some(h), Outcome::Ok(_)) if h.status == 200 => observations(&String::from_utf8_lossy(&h.body)) != lib_obs,
                            (Some(h), Outcome::Err(_)) => h.status != 400,
                            (Some(h), Outcome::Ok(b)) if b.is_empty() => h.status != 400,
                            _ => true,
                        };
                        if differs {
                            res.violation(
                                "scoping/server-history",
                                "c15:server-differs-from-library",
                                format!(
                                    "the server (after requests defining every probed name at top level) answers {:?} where the library gives {}; document:\n{}",
                                    h.as_ref().map(|h| (h.status, shorten(&String::from_utf8_lossy(&h.body), 600))),
                                    ob.brief(),
                                    shorten(&back, 1500)
                                ),
                            );
                            break;
                        }
                    }
                }
            }
        }
        for (variant, out, doc) in [("back", &ob, &back), ("fwd", &of, &fwd)] {
            res.stats.outcome(out.class());
            if scn.phantom {
                res.stats.probe("phantom_id_reference");
                if let Outcome::Ok(bytes) = out {
                    res.violation(
                        "scoping/phantom-id-resolved",
                        &format!("c15:phantom-id-resolved:{variant}"),
                        format!(
                            "{variant} variant: a reference to #Qx was satisfied although the only candidate is <g id=\"Q$vq\" vq=\"x\">, whose id may not see the group's own attribute; output: {}",
                            shorten(&String::from_utf8_lossy(bytes), 400)
                        ),
                    );
                }
                continue;
            }
            if expect_rejected {
                res.stats.probe("model_expects_var_limit_rejection");
                if let Outcome::Ok(bytes) = out {
                    res.violation(
                        "scoping/over-limit-value-accepted",
                        &format!("c15:limit-not-enforced:{variant}"),
                        format!(
                            "{variant} variant: a value longer than var-limit {:?} was accepted (and something else resolved in its place); output: {}; document:\n{}",
                            scn.var_limit,
                            shorten(&String::from_utf8_lossy(bytes), 300),
                            shorten(doc, 1500)
                        ),
                    );
                }
                continue;
            }
            if let Outcome::Ok(bytes) = out {
                let text = String::from_utf8_lossy(bytes);
                for (marker, want) in addon_parts(&scn).2 {
                    res.stats.probe(&format!("addon_{}", marker.trim_end_matches(':')));
                    let got = addon_texts(&text, &marker);
                    if got != want {
                        res.violation(
                            "scoping/reuse-scope",
                            &format!("c15:addon:{}{variant}", marker.to_lowercase()),
                            format!("{variant} variant: texts marked {marker} are {got:?}, lexical scoping gives {want:?}; document:\n{}", shorten(doc, 1800)),
                        );
                    }
                }
            }
            match out {
                Outcome::Ok(bytes) => {
                    let got = observations(&String::from_utf8_lossy(bytes)).unwrap_or_default();
                    if got != expect {
                        // first differing observation
                        let mut what = String::from("different number of probe outputs");
                        let mut var = "count".to_string();
                        let mut place = "outside";
                        // a probe key is "inside" if any expected observation with that key was
                        // made inside a construct whose execution reaches a forward reference
                        let place_of = |key: &str| -> &'static str {
                            if expect.iter().zip(expect_inside.iter()).any(|((k, _), ins)| k == key && *ins) {
                                "inside"
                            } else {
                                "outside"
                            }
                        };
                        if got.len() > expect.len() {
                            if let Some(x) = got.iter().find(|(k, _)| !expect.iter().any(|(kk, _)| kk == k)) {
                                what = format!("probe {} was rendered although lexically its condition is false", x.0);
                                place = "extra";
                            }
                        }
                        for (i, e) in expect.iter().enumerate() {
                            match got.get(i) {
                                Some(g) if g == e => continue,
                                Some(g) => {
                                    // which variable differs?
                                    if g.0 == e.0 {
                                        for (ga, ea) in g.1.split(';').zip(e.1.split(';')) {
                                            if ga != ea {
                                                var = ea.split('=').next().unwrap_or("?").to_string();
                                                break;
                                            }
                                        }
                                    } else {
                                        var = "order".into();
                                    }
                                    what = format!("probe {} printed [{}] but lexical scoping gives {} [{}]", g.0, g.1, e.0, e.1);
                                    place = if !expect.iter().any(|(k, _)| k == &g.0) {
                                        // a probe the lexical model never executes was rendered
                                        "extra"
                                    } else if !got.iter().any(|(k, _)| k == &e.0) {
                                        // an expected probe is absent altogether (its condition was
                                        // evaluated differently)
                                        "missing"
                                    } else if place_of(&e.0) == "inside" || place_of(&g.0) == "inside" {
                                        "inside"
                                    } else {
                                        "outside"
                                    };
                                    break;
                                }
                                None => {
                                    what = format!("probe {} missing from output", e.0);
                                    place = if got.iter().any(|(k, _)| k == &e.0) { place_of(&e.0) } else { "missing" };
                                    break;
                                }
                            }
                        }
                        let _ = var;
                        res.violation(
                            "scoping/probe-differs-from-lexical-model",
                            &format!("c15:probe-differs:{variant}:{}:{place}", scn.class),
                            format!("{variant} variant: {what} (probe is {place} a re-evaluated construct); document:\n{}", shorten(doc, 1500)),
                        );
                    }
                }
                Outcome::Err(e) => {
                    res.violation(
                        "scoping/program-rejected",
                        &format!("c15:rejected:{variant}:{}", scn.class),
                        format!("{variant} variant failed: {}; document:\n{}", shorten(e, 300), shorten(doc, 1500)),
                    );
                }
                Outcome::Panic(p) => {
                    res.violation("totality/panic", "c15:panic", format!("{variant}: {p}"));
                }
                Outcome::Budget => {}
            }
        }
        res
    }

    fn shrink(&self, scenario: &Value) -> Vec<Value> {
        let scn: Scn = match serde_json::from_value(scenario.clone()) {
            Ok(s) => s,
            Err(_) => return vec![],
        };
        let mut out: Vec<Scn> = Vec::new();
        fn variants(b: &[Stmt]) -> Vec<Vec<Stmt>> {
            let mut v = Vec::new();
            for i in 0..b.len() {
                // delete statement i
                let mut c = b.to_vec();
                c.remove(i);
                v.push(c);
            }
            for i in 0..b.len() {
                match &b[i] {
                    Stmt::Group { attrs, body, idprobe } => {
                        for nb in variants(body) {
                            let mut c = b.to_vec();
                            c[i] = Stmt::Group {
                                attrs: attrs.clone(),
                                body: nb,
                                idprobe: *idprobe,
                            };
                            v.push(c);
                        }
                        for ai in 0..attrs.len() {
                            let mut na = attrs.clone();
                            na.remove(ai);
                            let mut c = b.to_vec();
                            c[i] = Stmt::Group {
                                attrs: na,
                                body: body.clone(),
                                idprobe: *idprobe,
                            };
                            v.push(c);
                        }
                        if idprobe.is_some() {
                            let mut c = b.to_vec();
                            c[i] = Stmt::Group {
                                attrs: attrs.clone(),
                                body: body.clone(),
                                idprobe: None,
                            };
                            v.push(c);
                        }
                    }
                    Stmt::Loop { count, body } => {
                        for nb in variants(body) {
                            let mut c = b.to_vec();
                            c[i] = Stmt::Loop { count: *count, body: nb };
                            v.push(c);
                        }
                        if *count > 1 {
                            let mut c = b.to_vec();
                            c[i] = Stmt::Loop {
                                count: 1,
                                body: body.clone(),
                            };
                            v.push(c);
                        }
                        let mut c = b.to_vec();
                        c.splice(i..i + 1, body.clone());
                        v.push(c);
                    }
                    Stmt::IfLt { name, k, body } => {
                        for nb in variants(body) {
                            let mut c = b.to_vec();
                            c[i] = Stmt::IfLt {
                                name: name.clone(),
                                k: *k,
                                body: nb,
                            };
                            v.push(c);
                        }
                        let mut c = b.to_vec();
                        c.splice(i..i + 1, body.clone());
                        v.push(c);
                    }
                    Stmt::Var(vs) if vs.len() > 1 => {
                        for ai in 0..vs.len() {
                            let mut nv = vs.clone();
                            nv.remove(ai);
                            let mut c = b.to_vec();
                            c[i] = Stmt::Var(nv);
                            v.push(c);
                        }
                    }
                    Stmt::Reuse { tmpl, inst, attrs } if !attrs.is_empty() => {
                        for ai in 0..attrs.len() {
                            let mut na = attrs.clone();
                            na.remove(ai);
                            let mut c = b.to_vec();
                            c[i] = Stmt::Reuse {
                                tmpl: *tmpl,
                                inst: *inst,
                                attrs: na,
                            };
                            v.push(c);
                        }
                    }
                    _ => {}
                }
            }
            v
        }
        for nb in variants(&scn.body) {
            let mut s = scn.clone();
            s.body = nb;
            out.push(s);
        }
        if scn.defaults {
            let mut s = scn.clone();
            s.defaults = false;
            out.push(s);
        }
        if scn.var_limit.is_some() && !scn.phantom {
            let mut s = scn.clone();
            s.var_limit = None;
            out.push(s);
        }
        for di in 0..scn.derived.len() {
            let mut s = scn.clone();
            s.derived.remove(di);
            out.push(s);
        }
        for ti in 0..scn.templates.len() {
            for nb in variants(&scn.templates[ti]) {
                let mut s = scn.clone();
                s.templates[ti] = nb;
                out.push(s);
            }
        }
        out.into_iter().map(|s| serde_json::to_value(s).unwrap()).collect()
    }

    fn rule(&self) -> &'static str {
        "run = one scoped program (g / reuse-of-specs-template / loop / if / var / probes) rendered as two documents: back (anchors first, no retry) and fwd (anchors last: the forward references inside scoped constructs fail and are re-evaluated); evaluations = transforms; distinct by program fingerprint; non-trivial = the fwd variant actually had failed-and-retried element attempts (verif hook)"
    }
    fn components_real(&self) -> Vec<&'static str> {
        vec!["svgdx library (transform_stream): scope stack, retry work-list, reuse, loops, eval_vars"]
    }
    fn components_stub(&self) -> Vec<&'static str> {
        vec!["none; oracle = executable lexical-scoping reference model (stack of maps)"]
    }
    fn assumptions(&self) -> Vec<&'static str> {
        vec![
            "loop and if bodies run in the enclosing scope (documented svgdx behaviour); only g and reuse introduce scopes",
            "g attribute locals are literals (svgdx pushes the unevaluated element); variable values never contain '$'",
            "program class 'plain' never assigns a global after, or inside, a construct that is re-evaluated; the classes 'defer-read' and 'global-assign-faulted' do and carry their own signatures",
        ]
    }
}
