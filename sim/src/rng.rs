//! One integer decides everything: splitmix64 seeding, xoshiro256** streams,
//! sub-streams split by *label* (never by call order).

pub fn splitmix64(state: &mut u64) -> u64 {
    *state = state.wrapping_add(0x9E3779B97F4A7C15);
    let mut z = *state;
    z = (z ^ (z >> 30)).wrapping_mul(0xBF58476D1CE4E5B9);
    z = (z ^ (z >> 27)).wrapping_mul(0x94D049BB133111EB);
    z ^ (z >> 31)
}

pub fn mix(a: u64, b: u64) -> u64 {
    let mut s = a ^ b.wrapping_mul(0xD6E8FEB86659FD93).rotate_left(23);
    let x = splitmix64(&mut s);
    x ^ splitmix64(&mut s).rotate_left(17)
}

pub fn hash_str(s: &str) -> u64 {
    hash_bytes(s.as_bytes())
}

/// FNV-1a 64 followed by a finaliser; used for fingerprints, never for security.
pub fn hash_bytes(b: &[u8]) -> u64 {
    let mut h: u64 = 0xcbf29ce484222325;
    for &c in b {
        h ^= c as u64;
        h = h.wrapping_mul(0x100000001b3);
    }
    let mut s = h;
    splitmix64(&mut s)
}

/// seed of run `i` of property `prop` under master seed `master`
pub fn run_seed(master: u64, prop: &str, i: u64) -> u64 {
    mix(mix(master, hash_str(prop)), i)
}

#[derive(Clone, Debug)]
pub struct Rng {
    s: [u64; 4],
}

impl Rng {
    pub fn new(seed: u64) -> Self {
        let mut st = seed;
        let s = [
            splitmix64(&mut st),
            splitmix64(&mut st),
            splitmix64(&mut st),
            splitmix64(&mut st),
        ];
        Rng { s }
    }
    /// independent sub-stream named `label`
    pub fn sub(seed: u64, label: &str) -> Self {
        Rng::new(mix(seed, hash_str(label)))
    }
    pub fn next_u64(&mut self) -> u64 {
        let r = self.s[1].wrapping_mul(5).rotate_left(7).wrapping_mul(9);
        let t = self.s[1] << 17;
        self.s[2] ^= self.s[0];
        self.s[3] ^= self.s[1];
        self.s[1] ^= self.s[2];
        self.s[0] ^= self.s[3];
        self.s[2] ^= t;
        self.s[3] = self.s[3].rotate_left(45);
        r
    }
    /// uniform in 0..n (n > 0)
    pub fn below(&mut self, n: u64) -> u64 {
        if n <= 1 {
            return 0;
        }
        // multiply-shift; bias is irrelevant here
        ((self.next_u64() as u128 * n as u128) >> 64) as u64
    }
    pub fn usize(&mut self, n: usize) -> usize {
        self.below(n as u64) as usize
    }
    /// uniform in lo..=hi
    pub fn range(&mut self, lo: i64, hi: i64) -> i64 {
        if hi <= lo {
            return lo;
        }
        lo + self.below((hi - lo + 1) as u64) as i64
    }
    pub fn chance(&mut self, num: u64, den: u64) -> bool {
        self.below(den) < num
    }
    pub fn pick<'a, T>(&mut self, xs: &'a [T]) -> &'a T {
        &xs[self.usize(xs.len())]
    }
    pub fn shuffle<T>(&mut self, xs: &mut [T]) {
        for i in (1..xs.len()).rev() {
            let j = self.usize(i + 1);
            xs.swap(i, j);
        }
    }
    pub fn f01(&mut self) -> f64 {
        (self.next_u64() >> 11) as f64 / (1u64 << 53) as f64
    }
}

#[cfg(test)]
mod tests {
    use super::*;
    #[test]
    fn streams_are_stable() {
        let mut a = Rng::sub(1, "workload");
        let mut b = Rng::sub(1, "workload");
        let mut c = Rng::sub(1, "faults");
        let x = a.next_u64();
        assert_eq!(x, b.next_u64());
        assert_ne!(x, c.next_u64());
    }
}
