//! Hostile workload shapes for C01 (totality): every generator returns (label, bytes).
//! The label names the shape class; it is part of crash signatures.

use crate::core::WorkerEnv;
use crate::docgen;
use crate::rng::Rng;
use crate::simio;

pub const DICT: &[&str] = &[
    "", " ", "#", "#a", "#a|", "#a|h", "#a|x", "#a@", "#a@tl", "#a@zz", "#a~", "#a~x2", "#|h", "^", "^|h", "^@br", "|h", "@", "~",
    "$", "${", "${a", "$a", "{{", "}}", "{{}}", "{{ }}", "{{1+}}", "{{(}}", "{{)}}", "{{1/0}}", "{{0/0}}", "{{1%0}}", "{{-}}", "{{$}}",
    "{{randint(5,1)}}", "{{randint(-2147483648, 2147483647)}}", "{{pow(10, 40)}}", "{{exp(1000)}}", "{{log(0)}}", "{{sqrt(-1)}}",
    "{{select(9, 1)}}", "{{head()}}", "{{tail()}}", "{{divmod(1, 0)}}", "{{split('', 'abc')}}", "{{join()}}", "{{_(}}", "{{'}}", "{{\"}}",
    "{{1,2,3}}", "{{#a~w}}", "{{#~w}}", "{{#a~}}", "{{^~w}}", "{{$a$a}}", "{{1 2}}", "{{1..2}}", "{{1e999}}", "{{1e-999}}", "{{.}}",
    "1e999", "-1e999", "1e39", "1e38", "3.4e38", "NaN", "nan", "inf", "-inf", "-0", "+5", "0x10", "1_000", "１２", "1.2.3", "--1", "1-",
    ".", "-", "+", "1 2 3 4 5 6 7", "1,2", "1,,2", ",", "%", "50%", "-50%", "1e5%", "200%", "10mm", "10 mm", "mm",
    "tl", "zz", "t:50%", "t:-5", "t:1e99", "b:", ":", "h", "v", "corner", "0 0 0 0 0",
    "é", "😀", "\u{0301}", "\t", "\n", "a\nb\nc", "&amp;", "&lt;", "&#0;", "&#xD800;", "&bogus;", "&", "<", ">", "'", "\\", "\\n", "\\$",
    "true", "false", "TRUE", "1", "0", "-1", "4294967296", "99999999999999999999", "18446744073709551616",
    "translate(", "translate(1e99)", "rotate(45 1)", "scale()", "matrix(1 2 3)", "url(#a)", "url(#", "url()", "none",
    "M1 2 z 5", "M 0 0 Z Z", "M0 0z1", "z", "M 1", "M 1 2 L", "M1,2 3", "M 0 0 h", "M0 0 A 1 1", "M.5.5.5.5", "M1-2-3-4", "M 1e999 0",
    "{{$é}}", "{{$Δ + 1}}", "$é", "${é}", "{{$größe * 2}}", "$_", "{{$_x}}", "{{$9}}", "{{$a.b}}", "{{$ }}",
    "d-grid-0", "d-grid-1", "d-grid-100", "d-grid-101", "d-hatch-0", "d-crosshatch-0", "d-stipple-0", "d-grid-h-0", "d-grid-v-0", "d-grid--1", "d-grid-4294967296",
    "M 0 0 b 30 10", "M 0 0 B", "m 1 1 q 1", "M0 0 c 1 2 3 4 5", "M 0 0 a 1 1 0 1 1", "M 0 0 t", "M0,0L1,1Z2", "M 0 0 z z z 1 1 1",
];

fn nest(open: &str, close: &str, d: usize, inner: &str) -> String {
    let mut s = String::with_capacity(d * (open.len() + close.len()) + inner.len());
    for _ in 0..d {
        s.push_str(open);
    }
    s.push_str(inner);
    for _ in 0..d {
        s.push_str(close);
    }
    s
}

const DEPTHS: &[usize] = &[3, 40, 99, 101, 150, 400, 1500, 6000, 25000, 100000, 200000];

pub fn non_utf8_positions() -> Vec<(&'static str, Vec<u8>)> {
    // \xff marks the place of the bad byte
    let templates: &[(&str, &str)] = &[
        ("elem-name", "<svg><re\u{1}ct wh=\"1\"/></svg>"),
        ("end-name", "<svg><g><rect wh=\"1\"/></g\u{1}></svg>"),
        ("attr-name", "<svg><rect w\u{1}h=\"1\"/></svg>"),
        ("attr-value", "<svg><rect wh=\"1\" text=\"a\u{1}b\"/></svg>"),
        ("id-value", "<svg><rect id=\"a\u{1}\" wh=\"1\"/><rect xy=\"#a\u{1}|h\" wh=\"1\"/></svg>"),
        ("text", "<svg><text xy=\"0 0\">a\u{1}b</text></svg>"),
        ("tail-text", "<svg><rect wh=\"1\"/>a\u{1}b</svg>"),
        ("comment", "<svg><!-- a\u{1}b --><rect wh=\"1\"/></svg>"),
        ("cdata", "<svg><text xy=\"0 0\"><![CDATA[a\u{1}b]]></text></svg>"),
        ("pi", "<?xml version=\"1.0\"?><?p a\u{1}b?><svg><rect wh=\"1\"/></svg>"),
        ("decl", "<?xml version=\"1.0\" encoding=\"\u{1}\"?><svg><rect wh=\"1\"/></svg>"),
        ("doctype", "<!DOCTYPE svg\u{1}><svg><rect wh=\"1\"/></svg>"),
        ("real-comment", "<svg xmlns=\"http://www.w3.org/2000/svg\"><!-- a\u{1}b --><rect width=\"1\" height=\"1\"/></svg>"),
        ("real-name", "<svg xmlns=\"http://www.w3.org/2000/svg\"><re\u{1}ct width=\"1\" height=\"1\"/></svg>"),
        ("real-text", "<svg xmlns=\"http://www.w3.org/2000/svg\"><text>a\u{1}b</text></svg>"),
        ("real-attr", "<svg xmlns=\"http://www.w3.org/2000/svg\"><rect width=\"\u{1}\"/></svg>"),
        ("nested-real-comment", "<svg><svg xmlns=\"http://www.w3.org/2000/svg\"><!-- \u{1} --></svg></svg>"),
        ("var-value", "<svg><var v=\"\u{1}\"/><rect wh=\"1\" text=\"$v\"/></svg>"),
        ("class", "<svg><rect wh=\"1\" class=\"d-\u{1}\"/></svg>"),
        ("style-el", "<svg><style>a{\u{1}}</style><rect wh=\"1\"/></svg>"),
        ("config", "<svg><config font-family=\"\u{1}\"/><rect wh=\"1\"/></svg>"),
        ("root-attr", "<svg width=\"\u{1}\"><rect wh=\"1\"/></svg>"),
        ("before-root", "\u{1}<svg><rect wh=\"1\"/></svg>"),
        ("after-root", "<svg><rect wh=\"1\"/></svg>\u{1}"),
    ];
    templates
        .iter()
        .map(|(n, t)| (*n, t.as_bytes().to_vec()))
        .collect()
}

fn put_bad_bytes(tmpl: &[u8], bad: &[u8]) -> Vec<u8> {
    let mut out = Vec::new();
    for b in tmpl {
        if *b == 1 {
            out.extend_from_slice(bad);
        } else {
            out.push(*b);
        }
    }
    out
}

const BAD_SEQS: &[&[u8]] = &[
    &[0xff],
    &[0xc3, 0x28],
    &[0x80],
    &[0xe2, 0x82],
    &[0xf0, 0x9f, 0x98],
    &[0xed, 0xa0, 0x80],
    &[0xc0, 0xaf],
    &[0x00],
    &[0xfe, 0xff],
];

/// One hostile document. `explicit work` of every shape is bounded (<= 5e4 element x iteration).
pub fn hostile_doc(rng: &mut Rng, env: &WorkerEnv) -> (String, Vec<u8>) {
    let d = *rng.pick(DEPTHS);
    match rng.below(48) {
        0 => (
            "expr-paren-depth".into(),
            format!("<svg><rect wh=\"{{{{{}}}}}\"/></svg>", nest("(", ")", d, "1")).into_bytes(),
        ),
        1 => (
            "expr-unary-depth".into(),
            format!("<svg><rect wh=\"{{{{{}1}}}}\"/></svg>", "-".repeat(d)).into_bytes(),
        ),
        2 => (
            "expr-fn-depth".into(),
            format!("<svg><rect wh=\"{{{{{}}}}}\"/></svg>", nest("abs(", ")", d.min(50000), "1")).into_bytes(),
        ),
        3 => {
            // binary operator chains (no nesting): long but flat
            let n = d.min(50000);
            let e: String = (0..n).map(|_| "1+").collect::<String>() + "1";
            ("expr-long-chain".into(), format!("<svg><rect wh=\"{{{{{e}}}}}\"/></svg>").into_bytes())
        }
        4 => {
            // lazy variable chain resolved inside an expression: v_k = "$v_{k-1}"
            let n = d.min(if env.tier == crate::core::Tier::Quick { 1000 } else { 3000 });
            let mut s = String::from("<svg>");
            for k in (1..=n).rev() {
                s.push_str(&format!("<var v{k}=\"$v{}\"/>", k - 1));
            }
            s.push_str("<var v0=\"1\"/>");
            s.push_str(&format!("<rect wh=\"{{{{$v{n}}}}}\"/></svg>"));
            ("expr-var-chain".into(), s.into_bytes())
        }
        5 => {
            let which = rng.below(4);
            let dd = d.min(30000);
            let s = match which {
                0 => format!("<svg>{}</svg>", nest("<g>", "</g>", dd, "<rect wh=\"1\"/>")),
                1 => format!(
                    "<svg xmlns=\"http://www.w3.org/2000/svg\">{}</svg>",
                    nest("<g>", "</g>", dd, "<rect width=\"1\" height=\"1\"/>")
                ),
                2 => format!("<svg><specs>{}</specs></svg>", nest("<g>", "</g>", dd, "<rect wh=\"1\"/>")),
                _ => format!("<svg>{}</svg>", nest("<a>", "</a>", dd, "<text xy=\"0 0\">t</text>")),
            };
            (format!("xml-depth-{which}"), s.into_bytes())
        }
        6 => {
            let dd = d.min(30000);
            ("xml-depth-unclosed".into(), format!("<svg>{}", "<g>".repeat(dd)).into_bytes())
        }
        7 => {
            let s = match rng.below(5) {
                0 => "<svg><specs><g id=\"t\"><rect wh=\"1\"/><reuse href=\"#t\"/></g></specs><reuse href=\"#t\"/></svg>".to_string(),
                1 => "<svg><specs><g id=\"t\"><reuse href=\"#t\"/><reuse href=\"#t\"/></g></specs><reuse href=\"#t\"/></svg>".to_string(),
                2 => "<svg><specs><g id=\"t\"><reuse href=\"#t\"/><reuse href=\"#t\"/><reuse href=\"#t\"/></g></specs><reuse href=\"#t\"/></svg>".to_string(),
                3 => "<svg><specs><g id=\"a\"><reuse href=\"#b\"/><reuse href=\"#b\"/></g><g id=\"b\"><reuse href=\"#a\"/><reuse href=\"#a\"/></g></specs><reuse href=\"#a\"/></svg>".to_string(),
                _ => "<svg><g id=\"t\"><rect wh=\"1\"/><reuse href=\"#t\"/><reuse href=\"#t\"/></g></svg>".to_string(),
            };
            ("reuse-recursion".into(), s.into_bytes())
        }
        8 => {
            // use / reuse chains: a tail of n references whose base is a shape, or leads
            // into a reference cycle of length L which the tail is not part of
            let n = d.min(500);
            let kind = if rng.chance(1, 3) { "reuse" } else { "use" };
            let cycle = *rng.pick(&[0usize, 0, 1, 2, 3, 5]);
            let mut s = String::from("<svg>");
            if cycle == 0 {
                s.push_str("<rect id=\"u0\" wh=\"2\"/>");
            } else {
                // cycle c0 -> c1 -> ... -> c0; u0 points into it
                for c in 0..cycle {
                    s.push_str(&format!("<{kind} id=\"c{c}\" href=\"#c{}\"/>", (c + 1) % cycle));
                }
                s.push_str(&format!("<{kind} id=\"u0\" href=\"#c{}\"/>", rng.usize(cycle)));
            }
            let n = if cycle == 0 { n } else { n.min(6) };
            for k in 1..=n {
                s.push_str(&format!("<{kind} id=\"u{k}\" href=\"#u{}\"/>", k - 1));
            }
            match rng.below(4) {
                0 => s.push_str(&format!("<rect xy=\"#u{n}|h\" wh=\"1\"/>")),
                1 => s.push_str(&format!("<rect surround=\"#u{n}\"/>")),
                2 => s.push_str(&format!("<use href=\"#u{n}\" xy=\"#u0|v\"/><line start=\"#u{n}\" end=\"#u0\"/>")),
                _ => s.push_str(&format!("<rect wh=\"#u{n}\" x=\"#u0~x2\"/>")),
            }
            s.push_str("</svg>");
            (format!("{kind}-chain"), s.into_bytes())
        }
        9 | 10 => {
            let dstr = *rng.pick(&DICT[DICT.len() - 20..]);
            let el = match rng.below(4) {
                0 => format!("<path d=\"{dstr}\"/>"),
                1 => format!("<path d=\"{dstr}\" text=\"x\"/>"),
                2 => format!("<polyline points=\"{dstr}\"/>"),
                _ => format!("<path id=\"p\" d=\"{dstr}\"/><rect xy=\"#p|h\" wh=\"1\"/>"),
            };
            ("path-data".into(), format!("<svg>{el}</svg>").into_bytes())
        }
        11 => {
            let n = d.min(60000);
            let list: String = (0..n).map(|i| format!("{} ", i % 97)).collect();
            let s = match rng.below(4) {
                0 => format!("<svg><polyline points=\"{list}\"/></svg>"),
                1 => format!("<svg><rect wh=\"{list}\"/></svg>"),
                2 => format!("<svg><rect wh=\"1\" text=\"{}\"/></svg>", "ab\\n".repeat(n.min(20000))),
                _ => format!("<svg><rect wh=\"1\" class=\"{}\"/></svg>", (0..n.min(2500)).map(|i| format!("c{i} ")).collect::<String>()),
            };
            ("long-attr".into(), s.into_bytes())
        }
        12 | 13 => {
            let (pos, tmpl) = {
                let all = non_utf8_positions();
                let i = rng.usize(all.len());
                all[i].clone()
            };
            let bad = *rng.pick(BAD_SEQS);
            (format!("non-utf8@{pos}"), put_bad_bytes(&tmpl, bad))
        }
        14 | 15 | 16 => {
            let corpus = docgen::corpus(env);
            if corpus.is_empty() {
                return ("empty".into(), Vec::new());
            }
            let (name, bytes) = &corpus[rng.usize(corpus.len())];
            let c = simio::draw_corruption(rng, bytes.len());
            (format!("corpus-corrupt:{}:{}", c.kinds().join("+"), name), c.apply(bytes))
        }
        17 | 18 | 19 | 20 => {
            // attribute fuzz: replace attribute values of a real or generated document
            let corpus = docgen::corpus(env);
            let base = if !corpus.is_empty() && rng.chance(1, 2) {
                String::from_utf8_lossy(&corpus[rng.usize(corpus.len())].1).into_owned()
            } else {
                docgen::feature_doc(rng, false, true)
            };
            let mut out = String::with_capacity(base.len());
            let mut rest = base.as_str();
            let mut replaced = 0;
            while let Some(p) = rest.find("=\"") {
                let (head, tail) = rest.split_at(p + 2);
                out.push_str(head);
                if let Some(q) = tail.find('"') {
                    if rng.chance(1, 12) && replaced < 4 {
                        let v = rng.pick(DICT);
                        out.push_str(&v.replace('"', "&quot;").replace('<', "&lt;"));
                        replaced += 1;
                    } else {
                        out.push_str(&tail[..q]);
                    }
                    out.push('"');
                    rest = &tail[q + 1..];
                } else {
                    rest = tail;
                    break;
                }
            }
            out.push_str(rest);
            ("attr-fuzz".into(), out.into_bytes())
        }
        21 => {
            let k = *rng.pick(&[
                "scale", "debug", "add-auto-styles", "use-local-styles", "border", "background", "loop-limit", "var-limit", "depth-limit",
                "font-size", "font-family", "seed", "theme", "svg-style", "bogus",
            ]);
            let v = rng.pick(DICT);
            (
                "config-fuzz".into(),
                format!("<svg><config {k}=\"{}\"/><rect wh=\"5\" text=\"x\" class=\"d-grid-5\"/></svg>", v.replace('"', "&quot;").replace('<', "&lt;")).into_bytes(),
            )
        }
        22 => {
            let s = match rng.below(10) {
                0 => "<svg><loop while=\"1\"><rect wh=\"1\"/></loop></svg>".to_string(),
                1 => "<svg><loop until=\"0\"><rect wh=\"1\"/></loop></svg>".to_string(),
                2 => "<svg><loop count=\"4000000000\"><rect wh=\"1\"/></loop></svg>".to_string(),
                3 => "<svg><loop count=\"-1\"><rect wh=\"1\"/></loop></svg>".to_string(),
                4 => "<svg><loop count=\"3\" loop-var=\"i\" step=\"0\"><rect wh=\"{{1/$i}}\"/></loop></svg>".to_string(),
                5 => "<svg><var v=\"ab\"/><loop count=\"40\"><var v=\"${v}${v}\"/></loop><rect wh=\"1\" text=\"$v\"/></svg>".to_string(),
                6 => {
                    let k = if env.tier == crate::core::Tier::Quick { 16 } else { 30 };
                    format!("<svg><loop count=\"{k}\"><loop count=\"{k}\"><loop count=\"{k}\"><rect wh=\"1\"/></loop></loop></loop></svg>")
                }
                7 => "<svg><for data=\"\" var=\"x\"><rect wh=\"1\"/></for><for var=\"x\"/><for data=\"1,2\"/></svg>".to_string(),
                8 => "<svg><loop/><loop count=\"\"/><if/><if test=\"\"/><var/><reuse/><use/><config/><specs/><defaults/></svg>".to_string(),
                _ => "<svg><loop count=\"2\" loop-var=\"\" start=\"x\" step=\"y\"><rect wh=\"1\"/></loop></svg>".to_string(),
            };
            ("loop-shapes".into(), s.into_bytes())
        }
        23 => {
            let s = match rng.below(12) {
                0 => String::new(),
                1 => "   \n\t ".to_string(),
                2 => "\u{feff}<svg><rect wh=\"1\"/></svg>".to_string(),
                3 => "<svg".to_string(),
                4 => "<svg><rect wh=\"1\" wh=\"2\"/></svg>".to_string(),
                5 => "<!DOCTYPE svg [<!ENTITY a \"aaaaaaaaaa\"><!ENTITY b \"&a;&a;&a;&a;&a;&a;&a;&a;\"><!ENTITY c \"&b;&b;&b;&b;&b;&b;&b;&b;\">]><svg><text xy=\"0 0\">&c;&c;&c;</text></svg>".to_string(),
                6 => "<svg><text xy=\"0 0\"><![CDATA[unterminated</text></svg>".to_string(),
                7 => "<svg><!-- unterminated <rect wh=\"1\"/></svg>".to_string(),
                8 => "<svg></svg><svg></svg>".to_string(),
                9 => "</svg>".to_string(),
                10 => "<svg><rect wh=\"1\"/></svg></g></g>".to_string(),
                _ => "<svg><specs><specs><rect id=\"a\" wh=\"1\"/></specs></specs><reuse href=\"#a\"/></svg>".to_string(),
            };
            ("xml-misc".into(), s.into_bytes())
        }
        24 => {
            // UTF-16 / binary garbage
            let n = 16 + rng.usize(200);
            let mut b = vec![0xff, 0xfe];
            for _ in 0..n {
                b.push(rng.below(256) as u8);
            }
            ("binary-garbage".into(), b)
        }
        25 => {
            let a = rng.pick(DICT);
            let b = rng.pick(DICT);
            let esc = |s: &str| s.replace('"', "&quot;").replace('<', "&lt;");
            let s = match rng.below(8) {
                0 => format!("<svg><rect id=\"a\" wh=\"5\"/><rect xy=\"{}\" wh=\"{}\"/></svg>", esc(a), esc(b)),
                1 => format!("<svg><rect id=\"a\" wh=\"5\"/><rect surround=\"{}\" margin=\"{}\"/></svg>", esc(a), esc(b)),
                2 => format!("<svg><rect id=\"a\" wh=\"5\"/><line start=\"{}\" end=\"{}\"/></svg>", esc(a), esc(b)),
                3 => format!("<svg><rect id=\"a\" wh=\"5\"/><rect wh=\"3\" text=\"{}\" text-loc=\"{}\"/></svg>", esc(a), esc(b)),
                4 => format!("<svg><rect id=\"a\" wh=\"5\"/><circle cxy=\"{}\" r=\"{}\"/></svg>", esc(a), esc(b)),
                5 => format!("<svg><rect id=\"a\" wh=\"5\"/><rect inside=\"{}\" dxy=\"{}\"/></svg>", esc(a), esc(b)),
                6 => format!("<svg><rect id=\"a\" wh=\"5\" transform=\"{}\"/><rect xy=\"#a|h\" wh=\"2\" dw=\"{}\"/></svg>", esc(a), esc(b)),
                _ => format!("<svg width=\"{}\" height=\"{}\"><rect wh=\"5\"/></svg>", esc(a), esc(b)),
            };
            ("relspec-fuzz".into(), s.into_bytes())
        }
        26 => {
            // many siblings, flat: long but cheap
            let n = d.min(if env.tier == crate::core::Tier::Quick { 4000 } else { 20000 });
            let mut s = String::from("<svg>");
            for i in 0..n {
                s.push_str(&format!("<rect xy=\"{} 0\" wh=\"1\"/>", i));
            }
            s.push_str("</svg>");
            ("flat-long".into(), s.into_bytes())
        }
        27 => {
            // long forward-reference chain: element k refers to element k+1
            let n = d.min(if env.tier == crate::core::Tier::Quick { 120 } else { 300 });
            let mut s = String::from("<svg>");
            for i in 0..n {
                s.push_str(&format!("<rect id=\"c{i}\" xy=\"#c{}|h\" wh=\"1\"/>", i + 1));
            }
            s.push_str(&format!("<rect id=\"c{n}\" wh=\"1\"/></svg>"));
            ("fwd-chain".into(), s.into_bytes())
        }
        29 => {
            // clip-path reference cycles and chains
            let s = match rng.below(5) {
                0 => "<svg><clipPath id=\"c\" clip-path=\"url(#c)\"><rect wh=\"10\"/></clipPath><rect wh=\"5\" clip-path=\"url(#c)\"/></svg>".to_string(),
                1 => "<svg><clipPath id=\"c1\" clip-path=\"url(#c2)\"><rect wh=\"10\"/></clipPath><clipPath id=\"c2\" clip-path=\"url(#c1)\"><rect wh=\"8\"/></clipPath><rect id=\"r\" wh=\"5\" clip-path=\"url(#c1)\"/><rect xy=\"#r|h\" wh=\"1\"/></svg>".to_string(),
                2 => {
                    let n = d.min(3000);
                    let mut s = String::from("<svg><clipPath id=\"k0\"><rect wh=\"10\"/></clipPath>");
                    for k in 1..=n {
                        s.push_str(&format!("<clipPath id=\"k{k}\" clip-path=\"url(#k{})\"><rect wh=\"9\"/></clipPath>", k - 1));
                    }
                    s.push_str(&format!("<rect id=\"r\" wh=\"5\" clip-path=\"url(#k{n})\"/><rect xy=\"#r|h\" wh=\"1\"/></svg>"));
                    s
                }
                3 => "<svg><g id=\"g\" clip-path=\"url(#g)\"><rect wh=\"4\"/></g><rect xy=\"#g|h\" wh=\"1\"/></svg>".to_string(),
                _ => "<svg><rect id=\"r\" wh=\"5\" clip-path=\"url(#nope)\"/><rect wh=\"5\" clip-path=\"url(\"/><rect xy=\"#r|v\" wh=\"1\" clip-path=\"none\"/></svg>".to_string(),
            };
            ("clip-path-refs".into(), s.into_bytes())
        }
        30 => {
            // values that grow through recursion / iteration without passing a <var>
            let s = match rng.below(5) {
                0 => "<svg><specs><g id=\"a\"><reuse href=\"#a\" t=\"$t $t\"/></g></specs><reuse href=\"#a\" t=\"x\"/></svg>".to_string(),
                1 => "<svg><specs><g id=\"a\"><rect wh=\"1\" text=\"$t\"/><reuse href=\"#a\" t=\"${t}${t}${t}\"/></g></specs><reuse href=\"#a\" t=\"ab\"/></svg>".to_string(),
                2 => "<svg><var v=\"ab\"/><loop count=\"60\"><g t=\"$v$v\"><var v=\"$t\"/></g></loop><rect wh=\"1\" text=\"$v\"/></svg>".to_string(),
                3 => "<svg><specs><g id=\"a\"><reuse href=\"#a\" class=\"c$n\" n=\"{{$n + 1}}\" style=\"$style;x:$n\"/></g></specs><reuse href=\"#a\" n=\"0\" style=\"a:b\"/></svg>".to_string(),
                _ => "<svg><for data=\"1, 2, 3, 4, 5, 6, 7, 8, 9, 10, 11, 12, 13, 14, 15, 16, 17, 18, 19, 20, 21, 22, 23, 24, 25, 26, 27, 28, 29, 30\" var=\"i\"><var d=\"$d, $d\"/></for><for data=\"$d\" var=\"j\"><rect wh=\"1\"/></for></svg>".to_string(),
            };
            ("value-growth".into(), s.into_bytes())
        }
        31 => {
            // an unresolvable reference at the bottom of n nested groups, one good sibling
            // per level: every level's work-list retries its failing child
            let trailing = rng.below(6);
            // the variants with a <var>, <defaults> or <config> after the failing child at
            // every level are a known, unrepaired exponential case (each counts as a change
            // on every re-evaluation): the quick tier keeps them below the budget
            let n = if trailing >= 3 && env.tier == crate::core::Tier::Quick {
                *rng.pick(&[4usize, 8, 12])
            } else {
                *rng.pick(&[6usize, 12, 18, 24, 40, 70])
            };
            let kind = rng.below(3);
            let mut s = String::from("<svg>");
            for _ in 0..n {
                s.push_str(match kind {
                    0 => "<g><rect wh=\"1\"/>",
                    1 => "<g><rect wh=\"1\"/><circle r=\"1\"/>",
                    _ => "<a><text xy=\"0 0\">t</text>",
                });
            }
            s.push_str("<rect xy=\"#nope|h\" wh=\"1\"/>");
            for i in 0..n {
                s.push_str(if kind == 2 { "</a>" } else { "</g>" });
                // something that succeeds (and may register an id) after the failing child
                match trailing {
                    0 => {}
                    1 => s.push_str("<!-- c -->"),
                    2 => s.push_str(&format!("<rect id=\"x{i}\" wh=\"1\"/>")),
                    3 => s.push_str(&format!("<var q{i}=\"{i}\"/><rect wh=\"1\"/>")),
                    4 => s.push_str(&format!("<defaults><circle r=\"{}\"/></defaults><rect wh=\"1\"/>", i + 1)),
                    _ => s.push_str(&format!("<config border=\"{}\"/><rect wh=\"1\"/>", i % 7)),
                }
            }
            s.push_str("</svg>");
            let name = match trailing {
                3 => "nested-unresolvable-var",
                4 => "nested-unresolvable-defaults",
                5 => "nested-unresolvable-config",
                _ => "nested-unresolvable",
            };
            (name.into(), s.into_bytes())
        }
        32 => {
            // degenerate connector geometry: coincident endpoints, touching or identical
            // shapes, zero-size and non-finite shapes, every edge type
            let et = *rng.pick(&["", " edge-type=\"h\"", " edge-type=\"v\"", " edge-type=\"corner\"", " corner-offset=\"0\"", " corner-offset=\"50%\""]);
            let el = *rng.pick(&["line", "polyline"]);
            let s = match rng.below(10) {
                0 => format!("<svg><rect id=\"a\" xy=\"0 0\" wh=\"10\"/><rect id=\"b\" xy=\"10 0\" wh=\"10\"/><{el} start=\"#a@r\" end=\"#b@l\"{et}/></svg>"),
                1 => format!("<svg><{el} start=\"5 5\" end=\"5 5\"{et}/></svg>"),
                2 => format!("<svg><rect id=\"a\" xy=\"3 3\" wh=\"0\"/><{el} start=\"#a\" end=\"#a\"{et}/></svg>"),
                3 => format!("<svg><rect id=\"a\" wh=\"10\"/><{el} start=\"#a@tl\" end=\"#a@tl\"{et}/><{el} start=\"#a\" end=\"#a\"{et}/></svg>"),
                4 => format!("<svg><rect id=\"a\" wh=\"NaN\"/><rect id=\"b\" xy=\"20 0\" wh=\"5\"/><{el} start=\"#a\" end=\"#b\"{et}/></svg>"),
                5 => format!("<svg><rect id=\"a\" x=\"-1e39\" width=\"inf\" height=\"1\"/><circle id=\"b\" cxy=\"5 5\" r=\"{{{{1e30*1e30 - 1e30*1e30}}}}\"/><{el} start=\"#a\" end=\"#b\"{et}/></svg>"),
                6 => format!("<svg><rect id=\"a\" wh=\"10\"/><rect id=\"b\" wh=\"10\"/><{el} start=\"#a\" end=\"#b\"{et}/></svg>"),
                7 => format!("<svg><point id=\"a\" xy=\"1 1\"/><point id=\"b\" xy=\"1 1\"/><{el} start=\"#a\" end=\"#b\"{et}/><{el} start=\"#a@t:50%\" end=\"#b@b:-5\"{et}/></svg>"),
                8 => format!("<svg><rect id=\"a\" xy=\"0 0\" wh=\"10 0\"/><rect id=\"b\" xy=\"0 0\" wh=\"0 10\"/><{el} start=\"#a@b\" end=\"#b@r\"{et} text=\"t\"/></svg>"),
                _ => format!("<svg><circle id=\"a\" cxy=\"0 0\" r=\"0\"/><ellipse id=\"b\" cxy=\"0 0\" rxy=\"0 5\"/><{el} start=\"#a@r\" end=\"#b@l\"{et} class=\"d-arrow\"/></svg>"),
            };
            ("connector-degenerate".into(), s.into_bytes())
        }
        33 | 34 => {
            // every built-in function with special-value arguments and every arity 0..4
            const FUNCS: &[&str] = &[
                "abs", "ceil", "floor", "fract", "sign", "divmod", "sqrt", "log", "exp", "pow", "sin", "cos", "tan", "asin", "acos", "atan",
                "random", "randint", "min", "max", "sum", "product", "mean", "clamp", "mix", "eq", "ne", "lt", "le", "gt", "ge", "if", "not",
                "and", "or", "xor", "swap", "r2p", "p2r", "select", "addv", "subv", "scalev", "head", "tail", "empty", "count", "in", "split",
                "splitw", "trim", "join", "_",
            ];
            const ARGS: &[&str] = &[
                "sqrt(-1)", "0/0", "1e39", "-1e39", "1e39 - 1e39", "0", "-0", "1", "-1", "0.5", "2147483648", "-2147483649", "1e-45", "3.4e38",
                "'a'", "''", "'a b'", "1, 2", "()", "log(0)", "exp(100)", "$nope", "#nope~w", "randint(1, 1)", "pow(0, -1)", "1 % 0",
                // magnitudes around the integer types an implementation might convert through
                "-1e19", "1e19", "-9.3e18", "9223372036854775807", "-9223372036854775808", "-1e30", "4294967296", "-4294967296",
                "16777217", "255", "256", "65536", "-32769", "1e10",
            ];
            const OPS: &[&str] = &["+", "-", "*", "/", "%", "&lt;", "&gt;", "==", "!=", "&lt;=", "&gt;=", "&amp;&amp;", "||", "and", "or", "xor"];
            let f = *rng.pick(FUNCS);
            let n = rng.usize(5);
            let args: Vec<&str> = (0..n).map(|_| *rng.pick(ARGS)).collect();
            let e = if rng.chance(1, 3) {
                // the infix operators over the same operands (unary minus included)
                let neg = if rng.chance(1, 4) { "-" } else { "" };
                format!("{neg}({}) {} {}", *rng.pick(ARGS), *rng.pick(OPS), *rng.pick(ARGS))
            } else {
                format!("{f}({})", args.join(", "))
            };
            let site = match rng.below(5) {
                0 => format!("<rect wh=\"{{{{{e}}}}}\"/>"),
                1 => format!("<rect wh=\"2\" text=\"{{{{{e}}}}}\"/>"),
                2 => format!("<var v=\"{{{{{e}}}}}\"/><rect wh=\"$v\"/>"),
                3 => format!("<loop count=\"{{{{{e}}}}}\"><rect wh=\"1\"/></loop>"),
                _ => format!("<if test=\"{e}\"><rect wh=\"1\"/></if><rect xy=\"{{{{{e}}}}} {{{{{e}}}}}\" wh=\"1\"/>"),
            };
            ("expr-fn-fuzz".into(), format!("<svg>{site}</svg>").into_bytes())
        }
        35 => {
            // nesting spread over a chain of variables: each link adds its own parentheses
            let links = *rng.pick(&[4usize, 8, 20, 60, 99]);
            let parens = *rng.pick(&[10usize, 50, 95, 99]);
            let mut s = String::from("<svg>");
            for i in 0..links {
                s.push_str(&format!("<var v{i}=\"{}$v{}{}\"/>", "(".repeat(parens), i + 1, ")".repeat(parens)));
            }
            s.push_str(&format!("<var v{links}=\"1\"/><rect wh=\"{{{{$v0}}}}\"/></svg>"));
            ("expr-var-paren-chain".into(), s.into_bytes())
        }
        36 => {
            // error paths of <reuse>: inside groups / loops / other instances, with targets that
            // fail to evaluate in the instance scope, bad or missing href, non-element targets
            let tmpl = *rng.pick(&[
                "<g id=\"t\"><rect wh=\"{{$size}}\"/></g>",
                "<rect id=\"t\" wh=\"{{$size + $nope}}\"/>",
                "<g id=\"t\"><rect wh=\"2\"/><reuse href=\"#u\"/></g><g id=\"u\"><rect wh=\"{{$q}}\"/></g>",
                "<g id=\"t\" transform=\"rotate({{$a}})\"><rect wh=\"2\"/></g>",
                "<symbol id=\"t\"><circle r=\"$r\"/></symbol>",
            ]);
            let r = *rng.pick(&[
                "<reuse href=\"#t\"/>",
                "<reuse href=\"#t\" size=\"\"/>",
                "<reuse/>",
                "<reuse href=\"t\"/>",
                "<reuse href=\"#\"/>",
                "<reuse href=\"^\"/>",
                "<reuse href=\"#t\" size=\"3\" x=\"#nope|h\"/>",
                "<reuse href=\"#t\" size=\"{{(}}\"/>",
            ]);
            let wrap = match rng.below(5) {
                0 => r.to_string(),
                1 => format!("<g>{r}</g>"),
                2 => format!("<g fill=\"red\"><g>{r}</g><rect wh=\"1\"/></g>"),
                3 => format!("<loop count=\"2\"><g>{r}</g></loop>"),
                _ => format!("<g><rect xy=\"#later|h\" wh=\"1\"/>{r}</g><rect id=\"later\" wh=\"1\"/>"),
            };
            let specs = if rng.chance(1, 2) { format!("<specs>{tmpl}</specs>") } else { tmpl.to_string() };
            ("reuse-error-paths".into(), format!("<svg>{specs}{wrap}</svg>").into_bytes())
        }
        37 | 38 => {
            // multi-byte characters at every byte offset of long values (slicing by byte index)
            let pre = rng.usize(300);
            let mb = *rng.pick(&["é", "→", "😀", "ß", "Δ", "\u{0301}", "日本"]);
            let reps = 1 + rng.usize(400);
            let val = format!("{}{}", "a".repeat(pre), mb.repeat(reps));
            if rng.chance(1, 3) {
                // every ASCII prefix length 0..300 before the multi-byte run, one element each:
                // whatever byte offset something cuts at, some element has a character across it
                let dbg = if rng.chance(2, 3) { "<config debug=\"true\"/>" } else { "" };
                let attr = *rng.pick(&["text", "data-k", "_", "id", "class"]);
                let mut s = format!("<svg>{dbg}");
                for p in 0..300 {
                    s.push_str(&format!("<rect wh=\"1\" {attr}=\"{}{}\"/>", "a".repeat(p), mb.repeat(6)));
                }
                s.push_str("</svg>");
                return ("multibyte-offsets".into(), s.into_bytes());
            }
            let s = match rng.below(10) {
                0 => format!("<svg><rect wh=\"3\" text=\"{val}\"/></svg>"),
                1 => format!("<svg><rect id=\"{val}\" wh=\"3\"/><rect xy=\"#{val}|h\" wh=\"1\"/></svg>"),
                2 => format!("<svg><var v=\"{val}\"/><rect wh=\"3\" text=\"$v\"/></svg>"),
                3 => format!("<svg><rect wh=\"3\" class=\"{val}\" data-x=\"{val}\" style=\"--x:{val}\"/></svg>"),
                4 => format!("<svg><text xy=\"0 0\">{val}</text><!-- {val} --></svg>"),
                5 => format!("<svg><rect wh=\"3\" _=\"{val}\" __=\"{val}\"/></svg>"),
                6 => format!("<svg><specs><rect id=\"t\" wh=\"2\" text=\"$l\"/></specs><reuse href=\"#t\" l=\"{val}\"/></svg>"),
                7 => format!("<svg><config font-family=\"{val}\" background=\"{val}\" svg-style=\"{val}\"/><rect wh=\"3\" text=\"x\"/></svg>"),
                8 => format!("<svg><rect wh=\"3\" text=\"{}\" text-loc=\"tl\"/></svg>", val.replace('a', "a\\n")),
                _ => format!("<svg><for data=\"'{val}', '{mb}'\" var=\"x\"><rect wh=\"2\" text=\"$x\" {val}=\"1\"/></for></svg>"),
            };
            ("multibyte-offsets".into(), s.into_bytes())
        }
        39 => {
            // real (namespaced) SVG in non-canonical form: must come out the same however delivered
            let body = *rng.pick(&[
                "<rect  width='10'   height = \"5\"\n x=\"1\"/>",
                "<g\tid='a' ><text x=\"1\"  y='2' >t &amp; u</text></g  >",
                "<path d='M 0 0 L 1 1' style=\"fill: 'x'\"/><!--c--><?pi x?>",
                "<rect width=\"1\" height=\"1\"></rect><![CDATA[ x ]]>",
            ]);
            let root = *rng.pick(&[
                "<svg xmlns=\"http://www.w3.org/2000/svg\" width='10'  height=\"5\" >",
                "<svg   height='5' xmlns='http://www.w3.org/2000/svg'\n   viewBox=\"0 0 1 1\">",
                "<?xml version='1.0'?>\n<!-- lead -->\n<svg\nxmlns=\"http://www.w3.org/2000/svg\">",
            ]);
            ("real-svg-noncanonical".into(), format!("{root}{body}</svg>\n").into_bytes())
        }
        40 => {
            // every infix operator and every two-argument function over all ordered pairs of
            // 14 special operands (drawn per document from 40): one expression per element
            const OPERANDS: &[&str] = &[
                "0", "-0", "1", "-1", "2", "0.5", "-0.5", "sqrt(-1)", "1e39", "-1e39", "1e-45", "3.4e38", "-3.4e38", "2147483647",
                "2147483648", "-2147483648", "-2147483649", "4294967295", "4294967296", "9223372036854775807", "-9223372036854775808",
                "-9.3e18", "1e19", "-1e19", "1e30", "-1e30", "16777216", "16777217", "255", "256", "65535", "65536", "-32769", "1e10",
                "-1e10", "0.1", "1e-10", "100", "-100", "3",
            ];
            // (written as they must be inside an XML attribute value)
            const OPS: &[&str] = &["+", "-", "*", "/", "%", "&lt;", "&gt;", "==", "!=", "&lt;=", "&gt;=", "&amp;&amp;", "||"];
            const FN2: &[&str] = &[
                "divmod", "pow", "min", "max", "sum", "product", "mean", "eq", "ne", "lt", "le", "gt", "ge", "and", "or", "xor", "swap", "r2p",
                "p2r", "addv", "subv", "scalev", "in", "randint", "atan", "select", "mix", "clamp", "if",
            ];
            let mut picked: Vec<&str> = Vec::new();
            while picked.len() < 14 {
                let o = *rng.pick(OPERANDS);
                if !picked.contains(&o) {
                    picked.push(o);
                }
            }
            let mut s = String::from("<svg>");
            for a in &picked {
                for b in &picked {
                    for op in OPS {
                        s.push_str(&format!("<rect wh=\"1\" data-k=\"{{{{({a}) {op} ({b})}}}}\"/>"));
                    }
                    for f in FN2 {
                        s.push_str(&format!("<rect wh=\"1\" data-k=\"{{{{{f}({a}, {b})}}}}\"/>"));
                    }
                }
            }
            // and every built-in function with 0..4 arguments (numbers, an empty list)
            const ALLFN: &[&str] = &[
                "abs", "ceil", "floor", "fract", "sign", "divmod", "sqrt", "log", "exp", "pow", "sin", "cos", "tan", "asin", "acos", "atan",
                "random", "randint", "min", "max", "sum", "product", "mean", "clamp", "mix", "eq", "ne", "lt", "le", "gt", "ge", "if", "not",
                "and", "or", "xor", "swap", "r2p", "p2r", "select", "addv", "subv", "scalev", "head", "tail", "empty", "count", "in", "split",
                "splitw", "trim", "join", "_",
            ];
            s.push_str("<var ev=\"{{tail(1)}}\"/>");
            for f in ALLFN {
                for n in 0..=4 {
                    let args = vec!["1"; n].join(", ");
                    s.push_str(&format!("<rect wh=\"1\" data-f=\"{{{{{f}({args})}}}}\"/>"));
                }
                s.push_str(&format!("<rect wh=\"1\" data-f=\"{{{{{f}($ev)}}}}\"/><rect wh=\"1\" data-f=\"{{{{{f}($ev, $ev)}}}}\"/>"));
            }
            s.push_str("</svg>");
            ("expr-pair-grid".into(), s.into_bytes())
        }
        41 => {
            // a chain of variables whose VALUES are the text "$prev + $prev" (built with join so
            // that nothing is substituted at definition): evaluating the last one evaluates the
            // first 2^n times unless lookups are bounded
            let n = if env.tier == crate::core::Tier::Quick { *rng.pick(&[4usize, 10, 16, 22]) } else { *rng.pick(&[8usize, 16, 24, 40, 90]) };
            let sep = *rng.pick(&[" + ", " * ", ", "]);
            let mut s = String::from("<svg><var v0=\"1\"/>");
            for i in 1..=n {
                s.push_str(&format!("<var v{i}=\"{{{{_(join('', '$', 'v{} {sep} ', '$', 'v{}'))}}}}\"/>", i - 1, i - 1));
            }
            let site = match rng.below(3) {
                0 => format!("<text xy=\"0 0\" text=\"{{{{$v{n}}}}}\"/>"),
                1 => format!("<rect wh=\"{{{{count($v{n})}}}}\"/>"),
                _ => format!("<if test=\"$v{n}\"><rect wh=\"1\"/></if>"),
            };
            s.push_str(&site);
            s.push_str("</svg>");
            ("lazy-var-doubling".into(), s.into_bytes())
        }
        42 | 45 | 46 => {
            // one svgdx attribute, every value of the dictionary: one element per value
            const ATTRS: &[(&str, &str)] = &[
                ("wh", "<rect xy=\"0 0\" wh=\"@\"/>"), ("xy", "<rect xy=\"@\" wh=\"2\"/>"), ("cxy", "<rect cxy=\"@\" wh=\"2\"/>"),
                ("xy1", "<line xy1=\"@\" xy2=\"5 5\"/>"), ("xy2", "<line xy1=\"0 0\" xy2=\"@\"/>"), ("x", "<rect x=\"@\" y=\"0\" wh=\"2\"/>"),
                ("width", "<rect width=\"@\" height=\"2\"/>"), ("r", "<circle cxy=\"0 0\" r=\"@\"/>"), ("rxy", "<ellipse cxy=\"0 0\" rxy=\"@\"/>"),
                ("dxy", "<rect xy=\"0 0\" wh=\"2\" dxy=\"@\"/>"), ("dx", "<rect xy=\"0 0\" wh=\"2\" dx=\"@\"/>"), ("dwh", "<rect xy=\"0 0\" wh=\"2\" dwh=\"@\"/>"),
                ("dw", "<rect xy=\"0 0\" wh=\"2\" dw=\"@\"/>"), ("xy-loc", "<rect xy=\"#a@c\" xy-loc=\"@\" wh=\"2\"/>"),
                ("text", "<rect wh=\"5\" text=\"@\"/>"), ("text-loc", "<rect wh=\"5\" text=\"t\" text-loc=\"@\"/>"),
                ("text-dxy", "<rect wh=\"5\" text=\"t\" text-dxy=\"@\"/>"), ("text-dx", "<rect wh=\"5\" text=\"t\" text-dx=\"@\"/>"),
                ("text-lsp", "<rect wh=\"5\" text=\"a\\nb\" text-lsp=\"@\"/>"), ("text-pre", "<rect wh=\"5\" text=\"a b\" text-pre=\"@\"/>"),
                ("text-style", "<rect wh=\"5\" text=\"t\" text-style=\"@\"/>"), ("margin", "<rect surround=\"#a\" margin=\"@\"/>"),
                ("surround", "<rect surround=\"@\"/>"), ("inside", "<rect inside=\"@\"/>"), ("start", "<line start=\"@\" end=\"#a\"/>"),
                ("end", "<polyline start=\"#a\" end=\"@\"/>"), ("edge-type", "<line start=\"#a\" end=\"#b\" edge-type=\"@\"/>"),
                ("corner-offset", "<polyline start=\"#a@b\" end=\"#b@l\" corner-offset=\"@\"/>"), ("points", "<polyline points=\"@\"/>"),
                ("d", "<path d=\"@\"/>"), ("transform", "<g transform=\"@\"><rect wh=\"2\"/></g>"), ("class", "<rect wh=\"2\" class=\"@\"/>"),
                ("style", "<rect wh=\"2\" style=\"@\"/>"), ("id", "<rect wh=\"2\" id=\"@\"/>"), ("href", "<reuse href=\"@\"/>"),
                ("use-href", "<use href=\"@\" xy=\"1 1\"/>"), ("clip-path", "<rect wh=\"9\" clip-path=\"@\"/>"), ("_", "<rect wh=\"2\" _=\"@\"/>"),
                ("__", "<rect wh=\"2\" __=\"@\"/>"), ("match", "<defaults><_ match=\"@\" rx=\"1\"/></defaults><rect wh=\"2\"/>"),
                ("count", "<loop count=\"@\"><rect wh=\"1\"/></loop>"), ("while", "<loop while=\"@\"><rect wh=\"1\"/></loop>"),
                ("until", "<loop until=\"@\"><rect wh=\"1\"/></loop>"), ("loop-start", "<loop count=\"2\" loop-var=\"i\" start=\"@\"><rect wh=\"1\"/></loop>"),
                ("loop-step", "<loop count=\"2\" loop-var=\"i\" step=\"@\"><rect wh=\"1\"/></loop>"), ("loop-var", "<loop count=\"2\" loop-var=\"@\"><rect wh=\"1\"/></loop>"),
                ("for-data", "<for data=\"@\" var=\"v\"><rect wh=\"1\" text=\"$v\"/></for>"), ("for-var", "<for data=\"1, 2\" var=\"@\"><rect wh=\"1\"/></for>"),
                ("idx-var", "<for data=\"1, 2\" var=\"v\" idx-var=\"@\"><rect wh=\"1\"/></for>"), ("test", "<if test=\"@\"><rect wh=\"1\"/></if>"),
                ("var", "<var v=\"@\"/><rect wh=\"1\" text=\"$v\"/>"), ("g-attr", "<g q=\"@\"><rect wh=\"1\" text=\"$q\"/></g>"),
                ("reuse-attr", "<reuse href=\"#tp\" q=\"@\"/>"), ("point-xy", "<point xy=\"@\"/>"), ("box-wh", "<box xy=\"0 0\" wh=\"@\"/>"),
                ("text-el", "<text xy=\"0 0\">@</text>"), ("tspan", "<text xy=\"0 0\"><tspan>@</tspan></text>"), ("rotate", "<rect wh=\"3\" rotate=\"@\"/>"),
                ("image", "<image href=\"@\" xy=\"0 0\" wh=\"2\"/>"), ("root-width", ""), ("font-size", "<config font-size=\"@\"/><rect wh=\"2\" text=\"t\"/>"),
            ];
            let (name, tpl) = *rng.pick(ATTRS);
            let esc = |v: &str| v.replace('&', "&amp;").replace('"', "&quot;").replace('<', "&lt;");
            let mut s = String::new();
            if name == "root-width" {
                // the root can only be tried one value at a time
                let v = rng.pick(DICT);
                s.push_str(&format!("<svg width=\"{}\"><rect wh=\"2\"/></svg>", esc(v)));
            } else {
                s.push_str("<svg><specs><g id=\"tp\"><rect wh=\"1\" text=\"$q\"/></g></specs><rect id=\"a\" xy=\"0 0\" wh=\"4\"/><rect id=\"b\" xy=\"9 9\" wh=\"3\"/>");
                for v in DICT {
                    // (entity-looking values go in as written, the others escaped)
                    // (an ill-formed entity would end the whole document at the parser)
                    let val = if *v == "&amp;" || *v == "&lt;" { v.to_string() } else { esc(v) };
                    s.push_str(&tpl.replace('@', &val));
                }
                s.push_str("</svg>");
            }
            (format!("attr-grid:{name}"), s.into_bytes())
        }
        43 => {
            // every path command (bearing commands included) with arguments of every magnitude
            const MAG: &[&str] = &["0", "1", "-1", "0.5", "360", "725", "1e6", "-1e6", "1e10", "-1e10", "10000000000", "1e20", "1e30", "1e39", "-1e39"];
            let mut s = String::from("<svg>");
            for cmd in "MmLlHhVvCcSsQqTtAaBb".chars() {
                let nargs = match cmd.to_ascii_lowercase() {
                    'h' | 'v' | 'b' => 1,
                    'm' | 'l' | 't' => 2,
                    's' | 'q' => 4,
                    'c' => 6,
                    _ => 7,
                };
                for m in MAG {
                    let args: Vec<&str> = (0..nargs).map(|i| if i % 2 == 0 { *m } else { "1" }).collect();
                    let tail = *rng.pick(&["h1", "l 1 1", "v -2", "m 1 1 h 2", "z", ""]);
                    s.push_str(&format!("<path d=\"M0 0 {cmd}{} {tail}\"/>", args.join(" ")));
                }
            }
            s.push_str("</svg>");
            ("path-grid".into(), s.into_bytes())
        }
        44 => {
            // character data (of every UTF-8 length) and elements on one line: what follows the
            // text re-emits its indentation (text attributes, comments, debug output)
            let words = ["Gr\u{f6}\u{df}e: ", "\u{2192}\u{2192} ", "\u{1f600} ", "caf\u{e9} ", "plain ", "\u{301}\u{301}\u{301} ", "\t\u{e9}\t"];
            let els = [
                "<rect wh=\"9 4\" text=\"a\\nb\"/>", "<rect wh=\"3\" _=\"note\"/>", "<rect wh=\"3\" __=\"note\"/>", "<text xy=\"0 0\">t\u{e9}</text>",
                "<circle r=\"2\" text=\"c\"/>", "<g><rect wh=\"2\" text=\"x\"/></g>", "<line xy1=\"0 0\" xy2=\"5 5\" text=\"l\"/>",
            ];
            let mut s = String::from("<svg>");
            if rng.chance(1, 2) {
                s.push_str("<config debug=\"true\"/>");
            }
            for _ in 0..1 + rng.usize(4) {
                let open = *rng.pick(&["<g>", "<a href=\"#\">", "<g>\n   "]);
                s.push_str(open);
                for _ in 0..1 + rng.usize(3) {
                    s.push_str(*rng.pick(&words[..]));
                    s.push_str(*rng.pick(&els[..]));
                }
                s.push_str(if open.starts_with("<a") { "</a>" } else { "</g>" });
            }
            s.push_str("</svg>");
            ("text-then-element".into(), s.into_bytes())
        }
        47 => {
            // generated styles and definitions are built after the document has been evaluated,
            // one class at a time and the first failure wins: one pattern class per document
            let pat = *rng.pick(&["d-grid", "d-grid-h", "d-grid-v", "d-hatch", "d-crosshatch", "d-stipple"]);
            let n = *rng.pick(&["0", "1", "2", "3", "4", "5", "99", "100", "101", "-1", "00", "007", "4294967296", "1e2", ""]);
            let class = if n.is_empty() { pat.to_string() } else { format!("{pat}-{n}") };
            let extra = *rng.pick(&["", " d-red", " d-fill-blue d-thick", " d-grid-5"]);
            ("pattern-class-boundary".into(), format!("<svg><rect wh=\"20\" class=\"{class}{extra}\"/><circle r=\"3\" cxy=\"^@br\" class=\"{class}\"/></svg>").into_bytes())
        }
        28 => {
            let (dd, why) = docgen::failing_doc(rng);
            (format!("failing:{why}"), dd.into_bytes())
        }
        _ => {
            let many = rng_bool(rng);
            ("feature".into(), docgen::feature_doc(rng, many, true).into_bytes())
        }
    }
}

fn rng_bool(rng: &mut Rng) -> bool {
    rng.chance(1, 2)
}
