//! The front-ends of svgdx as the simulator drives them.
//!
//! L1 `transform_str`, L2 `transform_stream` over SimReader/SimWriter, L3 `cli::run`
//! in-process (file -> file) and the real `svgdx` child process, L4 the axum Router
//! in-process (no socket) and the real `svgdx-server` child process.

use crate::core::{Cfg, WorkerEnv};
use crate::simio::{Fired, ReadPlan, SimReader, SimWriter, WritePlan, YieldFn};
use serde::{Deserialize, Serialize};
use std::cell::RefCell;
use std::io::{Read, Write};
use std::panic::{catch_unwind, AssertUnwindSafe};
use std::path::{Path, PathBuf};
use std::process::{Command, Stdio};
use std::time::{Duration, Instant};

#[derive(Serialize, Deserialize, Clone, Debug, PartialEq, Eq)]
pub enum Outcome {
    Ok(Vec<u8>),
    /// `Display` of the error value
    Err(String),
    /// panic reached the thread boundary: "file:line: message"
    Panic(String),
    /// step budget exceeded (bounded liveness)
    Budget,
}

impl Outcome {
    pub fn class(&self) -> &'static str {
        match self {
            Outcome::Ok(_) => "ok",
            Outcome::Err(_) => "err",
            Outcome::Panic(_) => "panic",
            Outcome::Budget => "budget",
        }
    }
    pub fn is_ok(&self) -> bool {
        matches!(self, Outcome::Ok(_))
    }
    pub fn is_err(&self) -> bool {
        matches!(self, Outcome::Err(_))
    }
    pub fn brief(&self) -> String {
        match self {
            Outcome::Ok(b) => format!("Ok({} bytes, h={:016x})", b.len(), crate::rng::hash_bytes(b)),
            Outcome::Err(e) => format!("Err({})", crate::core::shorten(e, 300)),
            Outcome::Panic(p) => format!("Panic({})", crate::core::shorten(p, 300)),
            Outcome::Budget => "StepBudgetExceeded".into(),
        }
    }
}

thread_local! {
    static LAST_PANIC: RefCell<Option<String>> = RefCell::new(None);
}

/// Install the panic hook of the worker: remember location + message per thread, print nothing.
pub fn install_panic_hook() {
    std::panic::set_hook(Box::new(|info| {
        if info.payload().is::<crate::turnstile::StepBudgetExceeded>() {
            return;
        }
        let msg = if let Some(s) = info.payload().downcast_ref::<&str>() {
            s.to_string()
        } else if let Some(s) = info.payload().downcast_ref::<String>() {
            s.clone()
        } else {
            "<non-string panic payload>".to_string()
        };
        let loc = info
            .location()
            .map(|l| format!("{}:{}", l.file(), l.line()))
            .unwrap_or_else(|| "<unknown>".into());
        LAST_PANIC.with(|p| *p.borrow_mut() = Some(format!("{loc}: {msg}")));
    }));
}

/// Run `f`, turning a panic into `Outcome::Panic` / `Outcome::Budget`.
pub fn guarded<F: FnOnce() -> Outcome>(f: F) -> Outcome {
    LAST_PANIC.with(|p| *p.borrow_mut() = None);
    match catch_unwind(AssertUnwindSafe(f)) {
        Ok(o) => o,
        Err(payload) => {
            if payload.is::<crate::turnstile::StepBudgetExceeded>() {
                Outcome::Budget
            } else {
                let msg = LAST_PANIC.with(|p| p.borrow_mut().take()).unwrap_or_else(|| "<panic>".into());
                Outcome::Panic(msg)
            }
        }
    }
}

/// Run a closure on a fresh thread with the given stack size (a fresh thread is also a
/// fresh "incarnation" for hash seeds: std draws new SipHash keys per thread).
pub fn on_thread<T: Send + 'static>(stack: usize, f: impl FnOnce() -> T + Send + 'static) -> Result<T, String> {
    let h = std::thread::Builder::new()
        .stack_size(stack)
        .spawn(f)
        .map_err(|e| format!("spawn: {e}"))?;
    h.join().map_err(|_| "thread panicked outside guarded()".to_string())
}

pub const STACK_MAIN: usize = 8 << 20;
pub const STACK_WORKER: usize = 2 << 20;

// ------------------------------------------------------------------------------------------
// L1

pub fn fe_str(doc: &[u8], cfg: &Cfg) -> Option<Outcome> {
    let s = std::str::from_utf8(doc).ok()?.to_string();
    let c = cfg.to_transform_config();
    Some(guarded(|| match svgdx::transform_str(s, &c) {
        Ok(o) => Outcome::Ok(o.into_bytes()),
        Err(e) => Outcome::Err(e.to_string()),
    }))
}

// ------------------------------------------------------------------------------------------
// L2

pub struct StreamResult {
    pub outcome: Outcome,
    pub accepted: Vec<u8>,
    pub fired_r: Fired,
    pub fired_w: Fired,
    pub read_calls: u32,
    pub write_calls: u32,
    pub flushes: u32,
    pub probe: Option<svgdx::verif::Probe>,
}

pub fn fe_stream(doc: &[u8], cfg: &Cfg, rp: &ReadPlan, wp: &WritePlan, yield_fn: Option<YieldFn>) -> StreamResult {
    let c = cfg.to_transform_config();
    let mut r = SimReader::new(doc.to_vec(), rp.clone(), yield_fn.clone());
    let mut w = SimWriter::new(wp.clone(), yield_fn);
    let mut probe = None;
    let outcome = guarded(|| {
        let (res, p) = svgdx::verif::transform_stream_probed(&mut r, &mut w, &c);
        probe = Some(p);
        match res {
            Ok(()) => Outcome::Ok(Vec::new()),
            Err(e) => Outcome::Err(e.to_string()),
        }
    });
    let outcome = match outcome {
        Outcome::Ok(_) => Outcome::Ok(w.accepted.clone()),
        o => o,
    };
    StreamResult {
        outcome,
        accepted: std::mem::take(&mut w.accepted),
        fired_r: r.fired.clone(),
        fired_w: w.fired.clone(),
        read_calls: r.calls(),
        write_calls: w.calls(),
        flushes: w.flushes,
        probe,
    }
}

/// Plain stream call without faults, with the probe.
pub fn fe_stream_plain(doc: &[u8], cfg: &Cfg) -> (Outcome, Option<svgdx::verif::Probe>) {
    let r = fe_stream(doc, cfg, &ReadPlan::default(), &WritePlan::default(), None);
    (r.outcome, r.probe)
}

// ------------------------------------------------------------------------------------------
// L3 in-process: cli::Config::from_cmdline + cli::run, file -> file

fn shq(s: &str) -> String {
    // single-quote for shlex
    format!("'{}'", s.replace('\'', "'\\''"))
}

pub fn cmdline(cfg: &Cfg, input: &str, output: Option<&str>) -> String {
    let mut parts = vec!["svgdx".to_string()];
    for a in cfg.to_cli_args() {
        parts.push(shq(&a));
    }
    parts.push(shq(input));
    if let Some(o) = output {
        parts.push("-o".into());
        parts.push(shq(o));
    }
    parts.join(" ")
}

/// `svgdx <flags> <input> -o <output>` in-process. Paths are used as given.
pub fn fe_cli_inproc(cfg: &Cfg, input: &str, output: &str) -> Outcome {
    let line = cmdline(cfg, input, Some(output));
    guarded(|| {
        let config = match svgdx::cli::Config::from_cmdline(&line) {
            Ok(c) => c,
            Err(e) => return Outcome::Err(e.to_string()),
        };
        match svgdx::cli::run(config) {
            Ok(()) => Outcome::Ok(Vec::new()),
            Err(e) => Outcome::Err(e.to_string()),
        }
    })
}

// ------------------------------------------------------------------------------------------
// L3 child process

#[derive(Clone, Debug)]
pub struct ChildResult {
    /// exit code, or None if killed by a signal
    pub code: Option<i32>,
    pub signal: Option<i32>,
    pub timed_out: bool,
    pub stdout: Vec<u8>,
    pub stderr: Vec<u8>,
}

pub struct ChildSpec<'a> {
    pub args: Vec<String>,
    pub stdin: Option<&'a [u8]>,
    pub cwd: &'a Path,
    pub entropy: Option<u64>,
    pub fake_time_ns: Option<u64>,
    pub env: Vec<(String, String)>,
    pub env_remove: Vec<String>,
    pub timeout: Duration,
    /// send the child's stdout to this file (e.g. /dev/full) instead of capturing it
    pub stdout_to: Option<PathBuf>,
    /// the child's standard input is this file, opened for reading (instead of a pipe)
    pub stdin_file: Option<PathBuf>,
    /// send the child's stderr to this file (e.g. a full device) instead of capturing it
    pub stderr_to: Option<PathBuf>,
}

pub fn run_child(env: &WorkerEnv, bin: &str, spec: ChildSpec) -> Result<ChildResult, String> {
    use std::os::unix::process::ExitStatusExt;
    let exe: PathBuf = env.bin_dir.join(bin);
    let mut cmd = Command::new(&exe);
    cmd.args(&spec.args)
        .current_dir(spec.cwd)
        .stdin(Stdio::piped())
        .stdout(Stdio::piped())
        .stderr(Stdio::piped())
        .env("LD_PRELOAD", &env.seam_lib)
        .env_remove("VERIF_ENTROPY")
        .env_remove("VERIF_FAKE_TIME")
        .env_remove("RUST_BACKTRACE");
    if let Some(e) = spec.entropy {
        cmd.env("VERIF_ENTROPY", e.to_string());
    }
    if let Some(t) = spec.fake_time_ns {
        cmd.env("VERIF_FAKE_TIME", t.to_string());
    }
    for (k, v) in &spec.env {
        cmd.env(k, v);
    }
    for k in &spec.env_remove {
        cmd.env_remove(k);
    }
    if let Some(p) = spec.stdout_to.as_ref().filter(|p| p.as_path() != Path::new("closed-pipe")) {
        let f = std::fs::OpenOptions::new().write(true).open(p).map_err(|e| format!("open {}: {e}", p.display()))?;
        cmd.stdout(Stdio::from(f));
    }
    if spec.stdout_to.as_deref() == Some(Path::new("closed-pipe")) {
        // standard output is a pipe whose reader has gone (`svgdx .. | head -0`)
        let mut fds = [0i32; 2];
        if unsafe { libc::pipe(fds.as_mut_ptr()) } != 0 {
            return Err("pipe".into());
        }
        unsafe {
            libc::close(fds[0]);
            use std::os::fd::FromRawFd;
            cmd.stdout(Stdio::from(std::fs::File::from_raw_fd(fds[1])));
        }
    }
    if let Some(p) = &spec.stderr_to {
        let f = std::fs::OpenOptions::new().write(true).open(p).map_err(|e| format!("open {}: {e}", p.display()))?;
        cmd.stderr(Stdio::from(f));
    }
    if let Some(p) = &spec.stdin_file {
        let f = std::fs::File::open(p).map_err(|e| format!("open {}: {e}", p.display()))?;
        cmd.stdin(Stdio::from(f));
    }
    die_with_parent(&mut cmd);
    let mut child = cmd.spawn().map_err(|e| format!("spawn {}: {e}", exe.display()))?;
    let mut stdin = child.stdin.take();
    let input = spec.stdin.map(|b| b.to_vec());
    let writer = std::thread::spawn(move || {
        if let (Some(mut s), Some(b)) = (stdin.take(), input) {
            let _ = s.write_all(&b);
        }
        // stdin dropped here => EOF
    });
    let out = child.stdout.take();
    let err = child.stderr.take();
    let t_out = std::thread::spawn(move || {
        let mut b = Vec::new();
        if let Some(mut out) = out {
            let _ = out.read_to_end(&mut b);
        }
        b
    });
    let t_err = std::thread::spawn(move || {
        let mut b = Vec::new();
        if let Some(mut err) = err {
            let _ = err.read_to_end(&mut b);
        }
        b
    });
    let start = Instant::now();
    let mut timed_out = false;
    let status = loop {
        match child.try_wait().map_err(|e| e.to_string())? {
            Some(st) => break st,
            None => {
                if start.elapsed() > spec.timeout {
                    timed_out = true;
                    let _ = child.kill();
                    break child.wait().map_err(|e| e.to_string())?;
                }
                std::thread::sleep(Duration::from_millis(2));
            }
        }
    };
    let _ = writer.join();
    let stdout = t_out.join().unwrap_or_default();
    let stderr = t_err.join().unwrap_or_default();
    Ok(ChildResult {
        code: status.code(),
        signal: status.signal(),
        timed_out,
        stdout,
        stderr,
    })
}

/// A child must not outlive the worker that started it (workers are killed on hangs).
fn die_with_parent(cmd: &mut Command) {
    use std::os::unix::process::CommandExt;
    unsafe {
        cmd.pre_exec(|| {
            libc::prctl(libc::PR_SET_PDEATHSIG, libc::SIGKILL);
            Ok(())
        });
    }
}

/// a loopback port for a server child of this worker process (per process, so that a
/// dying predecessor on the same port cannot be mistaken for the new server)
/// A port for this worker's server: below the range the kernel hands out to outgoing
/// connections (32768..), or a burst of client connections elsewhere could hold it.
pub fn server_port() -> u16 {
    10000 + (std::process::id() % 20000) as u16
}

/// worker index, from the name of its scratch directory (w<k>)
pub fn worker_index(env: &WorkerEnv) -> u16 {
    env.scratch
        .file_name()
        .and_then(|n| n.to_str())
        .and_then(|n| n.trim_start_matches('w').parse().ok())
        .unwrap_or(0)
}

// ------------------------------------------------------------------------------------------
// L4 in-process router

#[derive(Clone, Debug, PartialEq, Eq)]
pub struct HttpResult {
    pub status: u16,
    pub content_type: String,
    pub body: Vec<u8>,
    /// the request future was Pending under the no-op waker and needed a runtime
    pub needed_runtime: bool,
}

pub fn fe_router(doc: &[u8], add_metadata: Option<bool>) -> Result<HttpResult, Outcome> {
    use axum::body::Body;
    use axum::http::Request;
    use http_body_util::BodyExt;
    use std::future::Future;
    use std::task::{Context, Poll, Waker};
    use tower::ServiceExt;

    let uri = match add_metadata {
        Some(v) => format!("/api/transform?add_metadata={v}"),
        None => "/api/transform".to_string(),
    };
    let body = doc.to_vec();
    let mut needed_runtime = false;
    let mut out: Option<HttpResult> = None;
    let o = guarded(|| {
        let req = Request::builder()
            .method("POST")
            .uri(&uri)
            .header("content-type", "text/plain; charset=utf-8")
            .body(Body::from(body))
            .unwrap();
        let router = svgdx::server::verif_router();
        let fut = async move {
            let resp = router.oneshot(req).await.unwrap();
            let status = resp.status().as_u16();
            let ct = resp
                .headers()
                .get("content-type")
                .and_then(|v| v.to_str().ok())
                .unwrap_or("")
                .to_string();
            let bytes = resp.into_body().collect().await.map(|c| c.to_bytes().to_vec()).unwrap_or_default();
            (status, ct, bytes)
        };
        let mut fut = Box::pin(fut);
        let waker = Waker::noop();
        let mut cx = Context::from_waker(waker);
        let (status, ct, bytes) = match fut.as_mut().poll(&mut cx) {
            Poll::Ready(r) => r,
            Poll::Pending => {
                // the handler awaits something real: give it a single-threaded runtime
                needed_runtime = true;
                let rt = tokio::runtime::Builder::new_current_thread().enable_all().build().unwrap();
                rt.block_on(fut)
            }
        };
        out = Some(HttpResult {
            status,
            content_type: ct,
            body: bytes,
            needed_runtime,
        });
        Outcome::Ok(Vec::new())
    });
    match (o, out) {
        (Outcome::Ok(_), Some(r)) => Ok(r),
        (o, _) => Err(o),
    }
}

// ------------------------------------------------------------------------------------------
// L4 real server child

pub struct ServerChild {
    child: std::process::Child,
    pub port: u16,
}

impl ServerChild {
    /// Start on `port`, or on one of the next few if that one is taken.
    pub fn start(env: &WorkerEnv, port: u16) -> Result<ServerChild, String> {
        let mut last = String::new();
        for k in 0..6u16 {
            let p = 10000 + ((port as u32 + 20000 - 10000 + k as u32 * 7919) % 20000) as u16;
            match Self::start_on(env, p) {
                Ok(s) => return Ok(s),
                Err(e) => last = e,
            }
        }
        Err(last)
    }

    fn start_on(env: &WorkerEnv, port: u16) -> Result<ServerChild, String> {
        let exe = env.bin_dir.join("svgdx-server");
        let mut cmd = Command::new(&exe);
        cmd.args(["--port", &port.to_string()])
            .stdin(Stdio::null())
            .stdout(Stdio::null())
            .stderr(Stdio::null())
            .env("LD_PRELOAD", &env.seam_lib)
            .env("VERIF_ENTROPY", "7");
        die_with_parent(&mut cmd);
        let child = cmd.spawn().map_err(|e| format!("spawn server: {e}"))?;
        let mut s = ServerChild { child, port };
        // wait until it accepts connections
        let start = Instant::now();
        loop {
            if let Ok(Some(_)) = s.child.try_wait() {
                return Err("server exited at start (port busy?)".into());
            }
            if std::net::TcpStream::connect(("127.0.0.1", port)).is_ok() {
                // make sure it is OUR child that is listening (not a dying predecessor)
                std::thread::sleep(Duration::from_millis(30));
                if let Ok(Some(_)) = s.child.try_wait() {
                    return Err("server exited at start (port busy?)".into());
                }
                return Ok(s);
            }
            if start.elapsed() > Duration::from_secs(10) {
                let _ = s.child.kill();
                let _ = s.child.wait();
                return Err("server did not start listening".into());
            }
            std::thread::sleep(Duration::from_millis(20));
        }
    }

    pub fn alive(&mut self) -> bool {
        matches!(self.child.try_wait(), Ok(None))
    }

    /// POST the document; returns None on transport failure / timeout.
    pub fn post(&mut self, doc: &[u8], add_metadata: Option<bool>, timeout: Duration) -> Option<HttpResult> {
        http_post(self.port, doc, add_metadata, timeout)
    }
}

/// `n` clients POST the same document at the same moment (released by a barrier), `rounds`
/// times. The server is a real process with its own scheduler, so which requests overlap
/// inside it is not decided here; what is checked is that it does not matter.
pub fn http_burst(port: u16, doc: &[u8], add_metadata: Option<bool>, n: usize, rounds: usize, timeout: Duration) -> Vec<Option<HttpResult>> {
    let barrier = std::sync::Arc::new(std::sync::Barrier::new(n));
    let doc = std::sync::Arc::new(doc.to_vec());
    let mut handles = Vec::new();
    for _ in 0..n {
        let (b, d) = (barrier.clone(), doc.clone());
        handles.push(std::thread::spawn(move || {
            let mut v = Vec::new();
            for _ in 0..rounds {
                b.wait();
                v.push(http_post(port, &d, add_metadata, timeout));
            }
            v
        }));
    }
    let mut all = Vec::new();
    for h in handles {
        match h.join() {
            Ok(v) => all.extend(v),
            Err(_) => all.push(None),
        }
    }
    all
}

thread_local! {
    /// how the next requests of this thread are put on the wire (0 = plainly)
    static HTTP_STYLE: std::cell::Cell<u64> = const { std::cell::Cell::new(0) };
}

/// Vary what the statements do not fix about a request: its Content-Type (none, several
/// media types, parameters with non-ASCII bytes) and the pieces the body is written in
/// (cuts anywhere, also inside a multi-byte character, a few milliseconds apart).
pub fn set_http_style(seed: u64) {
    HTTP_STYLE.with(|c| c.set(seed));
}

/// The same request in every style of the sweep (all Content-Types, body whole and in pieces).
pub fn http_post_sweep(port: u16, doc: &[u8], add_metadata: Option<bool>, timeout: Duration) -> Vec<Option<HttpResult>> {
    let mut v = Vec::new();
    for style in 1..=20u64 {
        set_http_style(style);
        v.push(http_post(port, doc, add_metadata, timeout));
    }
    set_http_style(0);
    v
}

pub fn http_post(port: u16, doc: &[u8], add_metadata: Option<bool>, timeout: Duration) -> Option<HttpResult> {
    let style = HTTP_STYLE.with(|c| c.get());
    let mut rng = crate::rng::Rng::sub(style, "http-style");
    let content_types: &[Option<&[u8]>] = &[
        Some(b"text/plain"),
        Some(b"application/xml"),
        Some(b"image/svg+xml"),
        Some(b"text/xml; charset=utf-8"),
        Some(b"application/x-www-form-urlencoded"),
        Some(b"application/octet-stream"),
        Some(b"multipart/form-data; boundary=x"),
        Some(b"text/xml; name=\"caf\xc3\xa9.xml\""),
        Some(b"text/xml; name=\"caf\xe9.xml\""),
        None,
    ];
    // (styles 1..=20 are the sweep: every Content-Type, body whole for odd and in pieces for even)
    let ct: Option<&[u8]> = if style == 0 {
        Some(b"text/plain")
    } else if style <= 20 {
        content_types[((style - 1) / 2) as usize % content_types.len()]
    } else {
        content_types[rng.usize(content_types.len())]
    };
    // body pieces
    let mut cuts: Vec<usize> = Vec::new();
    if style != 0 && doc.len() > 2 && (if style <= 20 { style % 2 == 0 } else { rng.chance(2, 3) }) {
        let multibyte: Vec<usize> = (1..doc.len()).filter(|i| doc[*i] & 0xC0 == 0x80).collect();
        for _ in 0..1 + rng.usize(3) {
            let c = if !multibyte.is_empty() && rng.chance(1, 2) { multibyte[rng.usize(multibyte.len())] } else { 1 + rng.usize(doc.len() - 1) };
            cuts.push(c);
        }
        cuts.sort();
        cuts.dedup();
    }
    {
        let mut s = std::net::TcpStream::connect(("127.0.0.1", port)).ok()?;
        s.set_read_timeout(Some(timeout)).ok()?;
        s.set_write_timeout(Some(timeout)).ok()?;
        let _ = s.set_nodelay(true);
        let uri = match add_metadata {
            Some(v) => format!("/api/transform?add_metadata={v}"),
            None => "/api/transform".to_string(),
        };
        let mut head = format!("POST {uri} HTTP/1.1\r\nHost: localhost\r\n").into_bytes();
        if let Some(ct) = ct {
            head.extend_from_slice(b"Content-Type: ");
            head.extend_from_slice(ct);
            head.extend_from_slice(b"\r\n");
        }
        head.extend_from_slice(format!("Content-Length: {}\r\nConnection: close\r\n\r\n", doc.len()).as_bytes());
        s.write_all(&head).ok()?;
        if cuts.is_empty() {
            s.write_all(doc).ok()?;
        } else {
            let mut from = 0;
            for c in cuts.iter().chain(std::iter::once(&doc.len())) {
                std::thread::sleep(Duration::from_millis(4));
                s.write_all(&doc[from..*c]).ok()?;
                let _ = s.flush();
                from = *c;
            }
        }
        let mut resp = Vec::new();
        let start = Instant::now();
        let mut buf = [0u8; 65536];
        loop {
            match s.read(&mut buf) {
                Ok(0) => break,
                Ok(n) => resp.extend_from_slice(&buf[..n]),
                Err(_) => return None,
            }
            if start.elapsed() > timeout {
                return None;
            }
        }
        parse_http(&resp)
    }
}

impl Drop for ServerChild {
    fn drop(&mut self) {
        let _ = self.child.kill();
        let _ = self.child.wait();
    }
}

fn parse_http(resp: &[u8]) -> Option<HttpResult> {
    let pos = resp.windows(4).position(|w| w == b"\r\n\r\n")?;
    let head = std::str::from_utf8(&resp[..pos]).ok()?;
    let mut lines = head.split("\r\n");
    let status: u16 = lines.next()?.split(' ').nth(1)?.parse().ok()?;
    let mut ct = String::new();
    let mut chunked = false;
    for l in lines {
        if let Some((k, v)) = l.split_once(':') {
            let k = k.trim().to_ascii_lowercase();
            if k == "content-type" {
                ct = v.trim().to_string();
            }
            if k == "transfer-encoding" && v.to_ascii_lowercase().contains("chunked") {
                chunked = true;
            }
        }
    }
    let mut body = resp[pos + 4..].to_vec();
    if chunked {
        let mut out = Vec::new();
        let mut i = 0;
        loop {
            let rest = &body[i..];
            let e = rest.windows(2).position(|w| w == b"\r\n")?;
            let n = usize::from_str_radix(std::str::from_utf8(&rest[..e]).ok()?.trim(), 16).ok()?;
            i += e + 2;
            if n == 0 {
                break;
            }
            out.extend_from_slice(body.get(i..i + n)?);
            i += n + 2;
        }
        body = out;
    }
    Some(HttpResult {
        status,
        content_type: ct,
        body,
        needed_runtime: false,
    })
}

/// The one permitted exception: the randomised id emitted when local styles are requested.
/// Nothing about its format is assumed: the id is whatever token differs first between the
/// two outputs, provided that in BOTH it is used as the local-style id - the root element's
/// `id`, or a `#token {` selector inside the generated <style> block. Every occurrence of it
/// is then replaced by one placeholder; any other difference remains a difference.
pub fn mask_local_id_pair(a: &[u8], b: &[u8]) -> (Vec<u8>, Vec<u8>) {
    if a == b {
        return (a.to_vec(), b.to_vec());
    }
    let n = a.iter().zip(b.iter()).take_while(|(x, y)| x == y).count();
    let is_tok = |c: u8| c.is_ascii_alphanumeric() || c == b'-' || c == b'_';
    let token_at = |t: &[u8]| -> Option<String> {
        let mut lo = n.min(t.len());
        while lo > 0 && is_tok(t[lo - 1]) {
            lo -= 1;
        }
        let mut hi = n.min(t.len());
        while hi < t.len() && is_tok(t[hi]) {
            hi += 1;
        }
        if hi - lo >= 6 {
            String::from_utf8(t[lo..hi].to_vec()).ok()
        } else {
            None
        }
    };
    let (Some(ta), Some(tb)) = (token_at(a), token_at(b)) else {
        return (a.to_vec(), b.to_vec());
    };
    let is_local_id = |t: &[u8], tok: &str| -> bool {
        let text = String::from_utf8_lossy(t);
        let root = text.find("<svg").map(|p| {
            let end = text[p..].find('>').map(|e| p + e).unwrap_or(text.len());
            text[p..end].contains(&format!(" id=\"{tok}\""))
        });
        let style = text.find("<style").map(|p| {
            let end = text[p..].find("</style>").map(|e| p + e).unwrap_or(text.len());
            let st = &text[p..end];
            st.contains(&format!("#{tok} {{")) || st.contains(&format!("#{tok}{{"))
        });
        root == Some(true) || style == Some(true)
    };
    if ta == tb || !is_local_id(a, &ta) || !is_local_id(b, &tb) {
        return (a.to_vec(), b.to_vec());
    }
    let ma = String::from_utf8_lossy(a).replace(&ta, "LOCAL-STYLE-ID").into_bytes();
    let mb = String::from_utf8_lossy(b).replace(&tb, "LOCAL-STYLE-ID").into_bytes();
    (ma, mb)
}

/// Did the document or the configuration ask for local styles (so that the one random token
/// of the output may differ between two runs)?
pub fn wants_local_styles(doc: &[u8], cfg: &Cfg) -> bool {
    cfg.use_local_styles || doc.windows(16).any(|w| w == b"use-local-styles")
}

/// Equality of two outcomes, up to the local-style id where local styles were requested.
pub fn same_outcome_modulo_local_id(a: &Outcome, b: &Outcome, local: bool) -> bool {
    match (a, b) {
        (Outcome::Ok(x), Outcome::Ok(y)) if local && x != y => {
            let (mx, my) = mask_local_id_pair(x, y);
            mx == my
        }
        _ => a == b,
    }
}

/// `prefix` is a prefix of `whole`, up to the local-style id where local styles were requested
/// (the id in `prefix` may be another one than in `whole`, and may be cut by the end of `prefix`).
pub fn is_prefix_modulo_local_id(prefix: &[u8], whole: &[u8], local: bool) -> bool {
    if whole.starts_with(prefix) {
        return true;
    }
    if !local {
        return false;
    }
    let is_tok = |c: u8| c.is_ascii_alphanumeric() || c == b'-' || c == b'_';
    let first_diff = |a: &[u8], b: &[u8]| a.iter().zip(b.iter()).take_while(|(x, y)| x == y).count();
    let n0 = first_diff(prefix, whole);
    if n0 >= whole.len() {
        return false; // prefix is longer than the whole output
    }
    // the token of `whole` at the first difference must be its local-style id
    let mut lo = n0;
    while lo > 0 && is_tok(whole[lo - 1]) {
        lo -= 1;
    }
    let mut hi = n0;
    while hi < whole.len() && is_tok(whole[hi]) {
        hi += 1;
    }
    let tg = &whole[lo..hi];
    if tg.len() < 6 {
        return false;
    }
    let (_, probe) = mask_local_id_pair(&[&whole[..lo], b"LOCAL-STYLE-ID-PROBE".as_slice(), &whole[hi..]].concat(), whole);
    if !probe.windows(14).any(|w| w == b"LOCAL-STYLE-ID") {
        return false; // that token is not used as the local-style id in `whole`
    }
    // the corresponding token of `prefix`
    let mut phi = lo;
    while phi < prefix.len() && is_tok(prefix[phi]) {
        phi += 1;
    }
    if phi == prefix.len() {
        return true; // everything before the id agrees, the id itself is cut by the end
    }
    let ta = prefix[lo..phi].to_vec();
    if ta.len() < 6 {
        return false;
    }
    // put the id of `whole` wherever `prefix` has its own (complete) id
    let mut p2 = Vec::with_capacity(prefix.len());
    let mut i = 0;
    while i < prefix.len() {
        if prefix[i..].starts_with(&ta) {
            p2.extend_from_slice(tg);
            i += ta.len();
        } else {
            p2.push(prefix[i]);
            i += 1;
        }
    }
    if whole.starts_with(&p2) {
        return true;
    }
    // a last, cut occurrence of the id at the very end of `prefix`
    let n1 = first_diff(&p2, whole);
    let mut l1 = n1;
    while l1 > 0 && is_tok(p2[l1 - 1]) {
        l1 -= 1;
    }
    let tail = &p2[l1..];
    tail.iter().all(|c| is_tok(*c)) && ta.starts_with(tail) && whole[l1..].starts_with(tg)
}

// ------------------------------------------------------------------------------------------
// the command in --watch mode: one process, several saves of the input file

/// What the watch session showed after one save of the input.
#[derive(Clone, Debug)]
pub struct WatchObs {
    /// content of the output file once it had settled (None: no such file)
    pub out: Option<Vec<u8>>,
    /// the output file differs from what it held before this save
    pub changed: bool,
    /// the command reported a failed transform after this save
    pub failure_reported: bool,
}

/// `svgdx --watch in.xml -o out.svg` in `dir`, with `saves` written to in.xml one after the
/// other (the first before the command starts). After each save the session waits - in real
/// time, this is a real process watching a real file - until the output file has changed and
/// settled, or a failure was reported, or `patience` has passed. A watch that neither renders
/// nor reports within `patience` shows up as `changed == false && !failure_reported`.
pub fn watch_session(env: &WorkerEnv, args: Vec<String>, dir: &Path, saves: &[Vec<u8>], pre_out: Option<&[u8]>, fake_time_ns: u64, patience: Duration) -> Result<Vec<WatchObs>, String> {
    let _ = std::fs::remove_dir_all(dir);
    std::fs::create_dir_all(dir).map_err(|e| format!("mkdir: {e}"))?;
    let (inp, outp, errp) = (dir.join("in.xml"), dir.join("out.svg"), dir.join("stderr.txt"));
    let first = saves.first().ok_or("no saves")?;
    std::fs::write(&inp, first).map_err(|e| format!("write: {e}"))?;
    if let Some(p) = pre_out {
        // (written after the input, so it is the newer file)
        std::thread::sleep(Duration::from_millis(20));
        std::fs::write(&outp, p).map_err(|e| format!("write: {e}"))?;
    }
    let errf = std::fs::File::create(&errp).map_err(|e| format!("create: {e}"))?;
    let mut cmd = Command::new(env.bin_dir.join("svgdx"));
    cmd.args(&args)
        .args(["--watch", "in.xml", "-o", "out.svg"])
        .current_dir(dir)
        .stdin(Stdio::null())
        .stdout(Stdio::null())
        .stderr(Stdio::from(errf))
        .env("LD_PRELOAD", &env.seam_lib)
        .env("VERIF_ENTROPY", "7")
        .env("VERIF_FAKE_TIME", fake_time_ns.to_string())
        .env_remove("RUST_BACKTRACE");
    die_with_parent(&mut cmd);
    let mut child = cmd.spawn().map_err(|e| format!("spawn svgdx --watch: {e}"))?;
    // (whatever the command says about a failed transform: every line on stderr which is not
    // one of its two progress notes counts)
    let failures = |p: &Path| {
        std::fs::read(p)
            .map(|b| {
                String::from_utf8_lossy(&b)
                    .lines()
                    .filter(|l| !l.trim().is_empty() && !l.starts_with("Watching ") && !l.trim_end().ends_with(" changed"))
                    .count()
            })
            .unwrap_or(0)
    };
    let mut prev: Option<Vec<u8>> = pre_out.map(|b| b.to_vec());
    let mut seen_failures = 0;
    let mut obs = Vec::new();
    for (i, save) in saves.iter().enumerate() {
        if i > 0 {
            // overwrite in place, one write, no truncation first: a reader never finds the
            // file empty (callers make all saves the same length, so it never finds a mix of
            // lengths either)
            use std::io::{Seek, SeekFrom};
            let mut f = std::fs::OpenOptions::new().write(true).open(&inp).map_err(|e| format!("open: {e}"))?;
            f.seek(SeekFrom::Start(0)).map_err(|e| format!("seek: {e}"))?;
            f.write_all(save).map_err(|e| format!("write: {e}"))?;
            f.set_len(save.len() as u64).map_err(|e| format!("set_len: {e}"))?;
        }
        let start = Instant::now();
        let mut last: Option<Vec<u8>> = None;
        let mut stable_since = Instant::now();
        let (mut changed, mut failed) = (false, false);
        loop {
            std::thread::sleep(Duration::from_millis(25));
            let now = std::fs::read(&outp).ok();
            if now != last {
                last = now.clone();
                stable_since = Instant::now();
            }
            let f = failures(&errp);
            if f > seen_failures {
                failed = true;
            }
            let differs = now != prev && now.as_ref().map(|b| !b.is_empty()).unwrap_or(false);
            if differs && stable_since.elapsed() > Duration::from_millis(120) {
                changed = true;
                break;
            }
            if failed && stable_since.elapsed() > Duration::from_millis(120) {
                break;
            }
            if start.elapsed() > patience || !matches!(child.try_wait(), Ok(None)) {
                break;
            }
        }
        seen_failures = failures(&errp);
        // (the command rewrites the file in place, and in this sandbox keeps doing so: a read
        // can catch it half written - take two equal, non-empty reads some time apart)
        let mut out = std::fs::read(&outp).ok();
        for _ in 0..40 {
            std::thread::sleep(Duration::from_millis(40));
            let again = std::fs::read(&outp).ok();
            let settled = again == out && again.as_ref().map(|b| !b.is_empty()).unwrap_or(true);
            out = again;
            if settled {
                break;
            }
        }
        prev = out.clone();
        obs.push(WatchObs { out, changed, failure_reported: failed });
    }
    let _ = child.kill();
    let _ = child.wait();
    Ok(obs)
}

/// A "device full" node of the worker's own (major 1, minor 7, like /dev/full) inside its
/// scratch directory: code under test which replaces its output path (rename over it) then
/// destroys this node and not the system's. Falls back to /dev/full if the node cannot be
/// made and /dev/full still is what it should be; None if there is no such device to be had.
pub fn full_device(env: &WorkerEnv) -> Option<PathBuf> {
    use std::os::unix::fs::{FileTypeExt, MetadataExt};
    let is_full = |p: &Path| std::fs::metadata(p).map(|m| m.file_type().is_char_device() && m.rdev() == libc::makedev(1, 7)).unwrap_or(false);
    let own = env.scratch.join("full-device");
    if !is_full(&own) {
        let _ = std::fs::remove_file(&own);
        let _ = std::fs::create_dir_all(&env.scratch);
        if let Ok(c) = std::ffi::CString::new(own.as_os_str().as_encoded_bytes()) {
            unsafe {
                libc::mknod(c.as_ptr(), libc::S_IFCHR | 0o666, libc::makedev(1, 7));
            }
        }
    }
    if is_full(&own) {
        return Some(own);
    }
    let sys = PathBuf::from("/dev/full");
    if is_full(&sys) {
        Some(sys)
    } else {
        None
    }
}
