//! Shared workload generators: corpus documents, feature documents, failing documents.

use crate::core::{Cfg, WorkerEnv};
use crate::rng::Rng;

/// The example documents of the repository under test (read from the current tree).
pub fn corpus(env: &WorkerEnv) -> Vec<(String, Vec<u8>)> {
    let dir = env.repo.join("examples");
    let mut names: Vec<_> = match std::fs::read_dir(&dir) {
        Ok(rd) => rd
            .filter_map(|e| e.ok())
            .map(|e| e.path())
            .filter(|p| p.extension().map(|x| x == "xml").unwrap_or(false))
            .collect(),
        Err(_) => Vec::new(),
    };
    names.sort();
    names
        .into_iter()
        .filter_map(|p| {
            let b = std::fs::read(&p).ok()?;
            Some((p.file_name()?.to_string_lossy().into_owned(), b))
        })
        .collect()
}

pub const COLOURS: &[&str] = &["red", "blue", "green", "silver", "gold", "black", "lightyellow", "none"];
pub const PATTERN_PREFIXES: &[&str] = &["d-grid", "d-grid-h", "d-grid-v", "d-hatch", "d-crosshatch", "d-stipple"];
pub const MISC_CLASSES: &[&str] = &[
    "d-thin",
    "d-thick",
    "d-thicker",
    "d-thinner",
    "d-dash",
    "d-dot",
    "d-dot-dash",
    "d-flow",
    "d-flow-fast",
    "d-flow-rev",
    "d-arrow",
    "d-biarrow",
    "d-softshadow",
    "d-hardshadow",
    "d-surround",
    "d-text-bold",
    "d-text-italic",
    "d-text-mono",
    "d-text-small",
    "d-text-large",
    "d-text-ol",
    "d-text-top",
    "d-text-bottom-left",
    "d-text-outside",
];

pub fn class_list(rng: &mut Rng, many_patterns: bool) -> String {
    let mut cs: Vec<String> = Vec::new();
    let n = rng.usize(4);
    for _ in 0..n {
        match rng.below(4) {
            0 => cs.push(format!("d-fill-{}", rng.pick(COLOURS))),
            1 => cs.push(format!("d-{}", rng.pick(COLOURS))),
            2 => cs.push(format!("d-text-{}", rng.pick(COLOURS))),
            _ => cs.push(rng.pick(MISC_CLASSES).to_string()),
        }
    }
    if many_patterns || rng.chance(1, 4) {
        let p = rng.pick(PATTERN_PREFIXES);
        let k = 2 + rng.usize(4);
        for _ in 0..k {
            cs.push(format!("{}-{}", p, 1 + rng.below(40)));
        }
        if rng.chance(1, 3) {
            cs.push(p.to_string());
        }
    }
    rng.shuffle(&mut cs);
    // Other spellings of a spacing already present (`d-grid-6` → `d-grid-06`, `d-grid-+6`):
    // distinct class names which parse to one number, so any order derived from the number
    // alone leaves them in set order. Appended after the shuffle and without a draw, so the
    // stream of every other choice is what it was.
    let respelt: Vec<String> = cs
        .iter()
        .filter_map(|c| {
            let (p, n) = c.rsplit_once('-')?;
            let v: u32 = n.parse().ok()?;
            (PATTERN_PREFIXES.contains(&p) && v % 3 == 0).then(|| if v % 2 == 0 { format!("{p}-0{v} {p}-+{v}") } else { format!("{p}-00{v}") })
        })
        .collect();
    cs.extend(respelt);
    cs.join(" ")
}

fn num(rng: &mut Rng, lo: i64, hi: i64) -> String {
    let v = rng.range(lo, hi);
    if rng.chance(1, 5) {
        format!("{}.{}", v, rng.below(10))
    } else {
        v.to_string()
    }
}

/// A shape element; `ids` are the ids defined so far (for backward references).
fn shape(rng: &mut Rng, ids: &mut Vec<String>, depth: usize, allow_random: bool) -> String {
    let kind = *rng.pick(&["rect", "rect", "rect", "circle", "ellipse", "line", "text", "polyline", "path", "box"]);
    let mut attrs: Vec<String> = Vec::new();
    let id = if rng.chance(2, 3) {
        let id = format!("e{}", ids.len());
        attrs.push(format!("id=\"{id}\""));
        Some(id)
    } else {
        None
    };
    let refer = if !ids.is_empty() && rng.chance(1, 2) {
        Some(rng.pick(ids).clone())
    } else {
        None
    };
    match kind {
        "rect" | "box" => {
            if let Some(r) = &refer {
                match rng.below(5) {
                    0 => attrs.push(format!("xy=\"#{r}|h {}\"", num(rng, 0, 9))),
                    1 => attrs.push(format!("xy=\"#{r}|v {}\"", num(rng, 0, 9))),
                    2 => attrs.push(format!("xy=\"#{r}@br\" xy-loc=\"tl\"")),
                    3 => attrs.push(format!("cxy=\"#{r}@t\"")),
                    _ => attrs.push(format!("xy=\"^|H {}\"", num(rng, 0, 5))),
                }
                if rng.chance(1, 3) {
                    attrs.push(format!("wh=\"#{r} {}%\"", 50 + rng.below(100)));
                } else {
                    attrs.push(format!("wh=\"{} {}\"", num(rng, 1, 40), num(rng, 1, 30)));
                }
            } else {
                match rng.below(3) {
                    0 => attrs.push(format!("xy=\"{} {}\"", num(rng, -20, 80), num(rng, -20, 80))),
                    1 => attrs.push(format!("x=\"{}\" y=\"{}\"", num(rng, -20, 80), num(rng, -20, 80))),
                    _ => attrs.push(format!("cxy=\"{} {}\"", num(rng, 0, 80), num(rng, 0, 80))),
                }
                if rng.chance(1, 2) {
                    attrs.push(format!("wh=\"{}\"", num(rng, 1, 40)));
                } else {
                    attrs.push(format!("width=\"{}\" height=\"{}\"", num(rng, 1, 40), num(rng, 1, 40)));
                }
            }
            if rng.chance(1, 4) {
                attrs.push(format!("rx=\"{}\"", num(rng, 0, 3)));
            }
        }
        "circle" => {
            if let Some(r) = &refer {
                attrs.push(format!("cxy=\"#{r}@{}\"", rng.pick(&["tl", "t", "tr", "r", "br", "b", "bl", "l", "c"])));
            } else {
                attrs.push(format!("cx=\"{}\" cy=\"{}\"", num(rng, 0, 80), num(rng, 0, 80)));
            }
            attrs.push(format!("r=\"{}\"", num(rng, 1, 20)));
        }
        "ellipse" => {
            attrs.push(format!("cxy=\"{} {}\"", num(rng, 0, 80), num(rng, 0, 80)));
            attrs.push(format!("rxy=\"{} {}\"", num(rng, 1, 20), num(rng, 1, 20)));
        }
        "line" => {
            if ids.len() >= 2 && rng.chance(1, 2) {
                let a = rng.pick(ids).clone();
                let b = rng.pick(ids).clone();
                attrs.push(format!("start=\"#{a}\" end=\"#{b}\""));
                if rng.chance(1, 2) {
                    attrs.push(format!("edge-type=\"{}\"", rng.pick(&["h", "v", "corner"])));
                }
            } else {
                attrs.push(format!(
                    "xy1=\"{} {}\" xy2=\"{} {}\"",
                    num(rng, 0, 80),
                    num(rng, 0, 80),
                    num(rng, 0, 80),
                    num(rng, 0, 80)
                ));
            }
        }
        "text" => {
            attrs.push(format!("xy=\"{} {}\"", num(rng, 0, 80), num(rng, 0, 80)));
        }
        "polyline" => {
            attrs.push(format!(
                "points=\"{} {} {} {} {} {}\"",
                num(rng, 0, 50),
                num(rng, 0, 50),
                num(rng, 0, 50),
                num(rng, 0, 50),
                num(rng, 0, 50),
                num(rng, 0, 50)
            ));
        }
        "path" => {
            attrs.push(format!(
                "d=\"M {} {} h {} v {} z\"",
                num(rng, 0, 50),
                num(rng, 0, 50),
                num(rng, 1, 20),
                num(rng, 1, 20)
            ));
        }
        _ => {}
    }
    let cls = class_list(rng, false);
    if !cls.is_empty() {
        attrs.push(format!("class=\"{cls}\""));
    }
    if kind != "box" && rng.chance(1, 2) {
        let t = match rng.below(4) {
            0 if allow_random => "{{randint(1, 6)}}".to_string(),
            1 if allow_random => "v={{random()}}".to_string(),
            2 => "a &amp; b\\nline2".to_string(),
            _ => format!("t{}", rng.below(100)),
        };
        attrs.push(format!("text=\"{t}\""));
        if rng.chance(1, 3) {
            attrs.push(format!("text-loc=\"{}\"", rng.pick(&["t", "b", "l", "r", "tl", "br", "c"])));
        }
    }
    if rng.chance(1, 6) {
        attrs.push(format!("style=\"opacity:0.{}\"", 1 + rng.below(9)));
    }
    if rng.chance(1, 8) {
        attrs.push("_=\"a comment\"".to_string());
    }
    if rng.chance(1, 10) {
        attrs.push(format!("transform=\"translate({} {})\"", num(rng, 0, 9), num(rng, 0, 9)));
    }
    if let Some(id) = id {
        ids.push(id);
    }
    let ind = "  ".repeat(depth + 1);
    if kind == "text" && rng.chance(1, 2) {
        format!("{ind}<text {}>hello {}</text>\n", attrs.join(" "), rng.below(100))
    } else {
        format!("{ind}<{kind} {}/>\n", attrs.join(" "))
    }
}

/// Body elements (recursive). Adds to `ids` only ids that are visible to later siblings.
fn body(rng: &mut Rng, ids: &mut Vec<String>, depth: usize, budget: &mut i32, allow_random: bool) -> String {
    let mut s = String::new();
    let n = 1 + rng.usize(5);
    let ind = "  ".repeat(depth + 1);
    for _ in 0..n {
        if *budget <= 0 {
            break;
        }
        *budget -= 1;
        match rng.below(16) {
            0 if depth < 3 => {
                let mut inner_ids = ids.clone();
                let cls = class_list(rng, false);
                let extra = if rng.chance(1, 3) {
                    format!(" fill=\"{}\"", rng.pick(COLOURS))
                } else {
                    String::new()
                };
                let gid = format!("g{}", ids.len());
                s.push_str(&format!("{ind}<g id=\"{gid}\" class=\"{cls}\"{extra}>\n"));
                s.push_str(&body(rng, &mut inner_ids, depth + 1, budget, allow_random));
                s.push_str(&format!("{ind}</g>\n"));
                ids.push(gid);
            }
            1 if depth < 2 => {
                let c = 1 + rng.below(4);
                let mut inner_ids = ids.clone();
                s.push_str(&format!("{ind}<loop count=\"{c}\" loop-var=\"i{depth}\">\n"));
                s.push_str(&format!(
                    "{ind}  <rect xy=\"{{{{$i{depth} * 12}}}} {}\" wh=\"10\" class=\"{}\"/>\n",
                    num(rng, 0, 60),
                    class_list(rng, false)
                ));
                s.push_str(&body(rng, &mut inner_ids, depth + 1, budget, allow_random));
                s.push_str(&format!("{ind}</loop>\n"));
            }
            2 => {
                s.push_str(&format!(
                    "{ind}<var k{}=\"{}\" m=\"{{{{{} * 2 + 1}}}}\"/>\n",
                    rng.below(3),
                    num(rng, 0, 30),
                    num(rng, 0, 9)
                ));
            }
            3 if depth < 2 => {
                let mut inner_ids = ids.clone();
                s.push_str(&format!("{ind}<if test=\"{}\">\n", rng.pick(&["1", "0", "{{2 > 1}}", "lt(1, 2)"])));
                s.push_str(&body(rng, &mut inner_ids, depth + 1, budget, allow_random));
                s.push_str(&format!("{ind}</if>\n"));
            }
            4 => s.push_str(&format!("{ind}<!-- comment {} -->\n", rng.below(100))),
            5 if depth < 2 => {
                s.push_str(&format!(
                    "{ind}<for data=\"{}\" var=\"z\" idx-var=\"zi\">\n{ind}  <circle cxy=\"{{{{$zi * 9}}}} {}\" r=\"$z\"/>\n{ind}</for>\n",
                    rng.pick(&["1, 2, 3", "2, 4", "5"]),
                    num(rng, 0, 50)
                ));
            }
            6 if depth == 0 => {
                let tid = format!("t{}", ids.len());
                s.push_str(&format!(
                    "{ind}<specs>\n{ind}  <g id=\"{tid}\"><rect wh=\"$size\" text=\"$label\"/><circle r=\"2\" cxy=\"^@br\"/></g>\n{ind}</specs>\n"
                ));
                let k = 1 + rng.usize(3);
                for j in 0..k {
                    s.push_str(&format!(
                        "{ind}<reuse href=\"#{tid}\" size=\"{}\" label=\"r{j}\" x=\"{}\" y=\"{}\" class=\"{}\"/>\n",
                        num(rng, 2, 20),
                        num(rng, 0, 60),
                        num(rng, 0, 60),
                        class_list(rng, false)
                    ));
                }
            }
            7 if depth == 0 => {
                s.push_str(&format!(
                    "{ind}<defaults>\n{ind}  <rect class=\"{}\" rx=\"1\"/>\n{ind}  <_ match=\"circle text\" text-loc=\"t\"/>\n{ind}</defaults>\n",
                    class_list(rng, false)
                ));
            }
            8 if depth == 0 && allow_random => {
                s.push_str(&format!("{ind}<config seed=\"{}\"/>\n", rng.below(1000)));
            }
            _ => s.push_str(&shape(rng, ids, depth, allow_random)),
        }
    }
    s
}

/// A generated svgdx document which exercises many features; mostly succeeds.
pub fn feature_doc(rng: &mut Rng, many_patterns: bool, allow_random: bool) -> String {
    let mut ids = Vec::new();
    let mut budget = 4 + rng.range(0, 20) as i32;
    let mut s = String::new();
    if rng.chance(1, 6) {
        s.push_str("<?xml version=\"1.0\" encoding=\"UTF-8\"?>\n");
    }
    if rng.chance(1, 6) {
        s.push_str("<!-- leading comment -->\n");
    }
    let fragment = rng.chance(1, 8);
    if !fragment {
        // author-supplied root attributes (kept verbatim, in document order)
        let extras = [
            "style=\"background: #eee\"",
            "role=\"img\"",
            "preserveAspectRatio=\"xMidYMid\"",
            "data-a=\"1\"",
            "data-b=\"two\"",
            "aria-label=\"x\"",
            "class=\"root\"",
            "id=\"top\"",
            "overflow=\"visible\"",
            "xml:space=\"preserve\"",
        ];
        let k = if rng.chance(1, 2) { 0 } else { 2 + rng.usize(5) };
        let mut picks: Vec<&str> = extras.to_vec();
        rng.shuffle(&mut picks);
        let attrs: String = picks.iter().take(k).map(|a| format!(" {a}")).collect();
        s.push_str(&format!("<svg{attrs}>\n"));
    }
    if many_patterns {
        s.push_str(&format!(
            "  <rect xy=\"0\" wh=\"20\" class=\"{}\"/>\n",
            class_list(rng, true)
        ));
    }
    s.push_str(&body(rng, &mut ids, 0, &mut budget, allow_random));
    if rng.chance(1, 5) {
        s.push_str("  <style>rect { fill: pink; }</style>\n");
    }
    if !fragment {
        s.push_str("</svg>\n");
    }
    s
}

/// Documents which must fail, with the reason class.
pub fn failing_doc(rng: &mut Rng) -> (String, &'static str) {
    match rng.below(16) {
        // the same template child fails in two instances, with different messages: the report
        // lists them in one stable order
        14 => (
            "<svg><specs><g id=\"t\"><rect xy=\"$ref|h\" wh=\"2\"/><circle cxy=\"$ref@t\" r=\"1\"/></g></specs><reuse href=\"#t\" ref=\"#missing_a\"/><reuse href=\"#t\" ref=\"#missing_b\"/><reuse href=\"#t\" ref=\"#missing_c\"/></svg>".to_string(),
            "multi-error-same-template",
        ),
        15 => (
            "<svg><g><rect xy=\"#m1|h\" wh=\"1\"/><g><rect xy=\"#m2|h\" wh=\"1\"/><rect xy=\"#m3|v\" wh=\"1\"/></g></g><g><circle cxy=\"#m4@t\" r=\"1\"/></g><loop count=\"2\"><rect xy=\"#m5|h\" wh=\"1\"/></loop></svg>".to_string(),
            "multi-error-nested",
        ),
        // several attributes of one element break a limit: the report must name the same one every time
        12 => (
            "<svg><config var-limit=\"10\"/><rect id=\"a\" wh=\"1\"/><reuse href=\"#a\" foo=\"aaaaaaaaaaaaaaaaaaaa\" bar=\"bbbbbbbbbbbbbbbbbbbbbbbbb\" baz=\"cccccccccccccccccc\" qux=\"dddddddddddddddd\"/></svg>".to_string(),
            "multi-attr-limit",
        ),
        13 => (
            "<svg><config var-limit=\"8\"/><var a=\"aaaaaaaaaaaa\" b=\"bbbbbbbbbbbbbbb\" c=\"cccccccccccc\" d=\"{{(1}}\" e=\"{{foo(2)}}\"/></svg>".to_string(),
            "multi-attr-limit",
        ),
        // late failures: the document evaluates, the root element cannot be finalised
        9 => ("<!-- c --><svg width=\"wide\"><rect wh=\"5\" text=\"x\"/></svg>".to_string(), "late-root-width"),
        10 => ("<svg height=\"1-2cm\"><rect wh=\"5\"/><circle cxy=\"^@br\" r=\"2\"/></svg>".to_string(), "late-root-height"),
        11 => ("<svg width=\"{{1+}}\"><rect wh=\"5\"/></svg>".to_string(), "late-root-expr"),
        0 => ("<svg><rect xy=\"#nope|h\" wh=\"5\"/></svg>".to_string(), "unknown-ref"),
        1 => (
            "<svg><rect id=\"a\" xy=\"#b|h\" wh=\"5\"/><rect id=\"b\" xy=\"#a|h\" wh=\"5\"/></svg>".to_string(),
            "cyclic-ref",
        ),
        2 => ("<svg><rect wh=\"5\"></svg>".to_string(), "malformed-xml"),
        3 => ("<svg><rect wh=\"{{(1 + 2}}\"/></svg>".to_string(), "malformed-expr"),
        4 => (
            format!(
                "<svg><config loop-limit=\"{}\"/><loop count=\"{}\"><rect wh=\"1\"/></loop></svg>",
                3 + rng.below(5),
                20 + rng.below(5)
            ),
            "loop-limit",
        ),
        5 => ("<svg><config border=\"abc\"/><rect wh=\"5\"/></svg>".to_string(), "bad-config"),
        6 => ("<svg><config nonsense=\"1\"/><rect wh=\"5\"/></svg>".to_string(), "bad-config"),
        7 => (
            "<svg><rect wh=\"5\"/><rect xy=\"#q|v\" wh=\"2\"/><circle cxy=\"#zz@t\" r=\"1\"/></svg>".to_string(),
            "multi-error",
        ),
        _ => ("<svg><line start=\"#x\" end=\"#y\"/></svg>".to_string(), "unknown-ref"),
    }
}

/// Documents which probe for state leaking in from OTHER transforms: they fail (or print
/// names verbatim) on a fresh context and would succeed / print values if element maps,
/// the previous element, variables or defaults survived from another document.
pub fn leak_probe_doc(rng: &mut Rng) -> String {
    match rng.below(6) {
        0 => "<svg><rect xy=\"^|h 2\" wh=\"5\"/></svg>".to_string(),
        1 => format!("<svg><rect xy=\"#e{}|h\" wh=\"2\"/></svg>", rng.below(3)),
        2 => "<svg><text xy=\"0 0\" text=\"k0=$k0 k1=$k1 m=$m fill=$fill i0=$i0 z=$z\"/></svg>".to_string(),
        3 => "<svg><reuse href=\"#t0\" size=\"3\" label=\"x\"/></svg>".to_string(),
        4 => "<svg><rect wh=\"4\" text=\"{{random()}} {{randint(1, 1000000)}}\"/><circle r=\"2\" cxy=\"^@br\"/></svg>".to_string(),
        _ => "<svg><circle cxy=\"^@t\" r=\"2\"/><rect wh=\"3\"/><rect wh=\"2\"/></svg>".to_string(),
    }
}

/// Documents close to (but within) the DEFAULT limits: a front-end that quietly runs with
/// other limits than the library disagrees on them.
pub fn near_limit_doc(rng: &mut Rng) -> String {
    match rng.below(4) {
        0 => format!("<svg><loop count=\"{}\" loop-var=\"i\"><rect xy=\"{{{{$i}}}} 0\" wh=\"1\"/></loop></svg>", 201 + rng.below(799)),
        1 => {
            let n = 900 + rng.usize(120);
            format!("<svg><var v=\"{}\"/><rect wh=\"2\" text=\"$v\"/></svg>", "v".repeat(n))
        }
        2 => {
            let d = 60 + rng.usize(30);
            format!("<svg>{}<rect wh=\"1\"/>{}</svg>", "<g>".repeat(d), "</g>".repeat(d))
        }
        _ => format!(
            "<svg><var i=\"0\"/><loop while=\"lt($i, {})\"><var i=\"{{{{$i + 1}}}}\"/></loop><rect wh=\"2\" text=\"$i\"/></svg>",
            300 + rng.below(600)
        ),
    }
}

/// Real (namespaced) SVG written in non-canonical form: it must come out the same however
/// the bytes are delivered and whichever front-end is used.
pub fn real_svg_doc(rng: &mut Rng) -> String {
    let body = *rng.pick(&[
        "<rect  width='10'   height = \"5\"\n x=\"1\"/>",
        "<g\tid='a' ><text x=\"1\"  y='2' >t &amp; u</text></g  >",
        "<path d='M 0 0 L 1 1' style=\"fill: 'x'\"/><!--c--><?pi x?>",
        "<rect width=\"1\" height=\"1\"></rect><![CDATA[ x ]]>",
    ]);
    let root = *rng.pick(&[
        "<svg xmlns=\"http://www.w3.org/2000/svg\" width='10'  height=\"5\" >",
        "<svg   height='5' xmlns='http://www.w3.org/2000/svg'\n   viewBox=\"0 0 1 1\">",
        "<?xml version='1.0'?>\n<!-- lead -->\n<svg\nxmlns=\"http://www.w3.org/2000/svg\">",
        "<svg xmlns='http://www.w3.org/2000/svg' data-long='0123456789012345678901234567890123456789012345678901234567890123456789' b=\"2\" a='1'>",
    ]);
    format!("{root}{body}</svg>\n")
}

/// A fragment whose output is one long line without a trailing newline.
pub fn long_line_fragment(rng: &mut Rng) -> String {
    let n = 1100 + rng.usize(3000);
    format!("<rect wh=\"3\" text=\"{}\"/>", "w".repeat(n))
}

/// A document whose output depends on as much per-transform state as possible (the
/// seeded random stream before / inside / after <specs>, variables accumulated in loops,
/// reuse instances, defaults, previous-element references), so that state shared between
/// two transforms in progress shows in the bytes.
pub fn stateful_doc(rng: &mut Rng) -> String {
    let mut s = String::from("<svg>\n");
    if rng.chance(1, 2) {
        s.push_str(&format!("  <config seed=\"{}\"/>\n", rng.below(1000)));
    }
    s.push_str("  <rect wh=\"4\" text=\"a{{randint(0, 999999)}}\"/>\n");
    let nt = 1 + rng.usize(3);
    s.push_str("  <specs>\n");
    for t in 0..nt {
        s.push_str(&format!(
            "    <g id=\"t{t}\"><rect wh=\"$size\" text=\"$label-{{{{randint(0, 999999)}}}}\"/><circle r=\"{{{{randint(1, 9)}}}}\" cxy=\"^@br\"/><text xy=\"^|v\" text=\"{{{{random()}}}}\"/></g>\n"
        ));
    }
    s.push_str("  </specs>\n");
    s.push_str("  <rect xy=\"^|h 2\" wh=\"3\" text=\"b{{randint(0, 999999)}}\"/>\n");
    s.push_str("  <var acc=\"0\"/>\n");
    let n = 2 + rng.below(4);
    s.push_str(&format!(
        "  <loop count=\"{n}\" loop-var=\"i\">\n    <var acc=\"{{{{$acc + randint(1, 9)}}}}\"/>\n    <reuse href=\"#t{}\" size=\"{{{{1 + $i}}}}\" label=\"L$acc\" x=\"{{{{$i * 12}}}}\" y=\"9\"/>\n  </loop>\n",
        rng.usize(nt)
    ));
    s.push_str("  <defaults><rect rx=\"{{randint(1, 3)}}\"/></defaults>\n");
    s.push_str("  <g fill=\"red\" k=\"{{randint(0, 99)}}\"><rect xy=\"0 30\" wh=\"5\" text=\"$k $acc $fill\"/><rect xy=\"^|h\" wh=\"2\" text=\"c{{random()}}\"/></g>\n");
    s.push_str("  <rect xy=\"^|v 1\" wh=\"3\" text=\"z{{randint(0, 999999)}} $acc\"/>\n</svg>\n");
    s
}

/// A <config> element with a value its key may or may not accept, followed by content whose
/// bytes depend on the random stream and on the generated styles: whatever svgdx makes of the
/// value (an error included), it must make the same of it every time.
pub fn odd_config_doc(rng: &mut Rng) -> String {
    const KEYS: &[&str] = &[
        "seed", "seed", "seed", "scale", "border", "loop-limit", "var-limit", "depth-limit", "font-size", "font-family", "theme", "background",
        "debug", "add-auto-styles", "use-local-styles", "svg-style", "nonesuch",
    ];
    const VALUES: &[&str] = &[
        "name", "-1", "1e3", "0x10", "", " 5 ", "5.0", "true", "\u{661}\u{662}\u{663}", "+7", "18446744073709551616", "NaN", "inf", "0", "seed",
        "1_000", "7;8", "${x}", "{{1 + 1}}", "white", "dark", "#fff", "none",
    ];
    let (k, v) = (*rng.pick(KEYS), *rng.pick(VALUES));
    let mut s = String::from("<svg>\n");
    if rng.chance(1, 3) {
        s.push_str("  <rect wh=\"3\" text=\"p{{randint(0, 999999)}}\"/>\n");
    }
    s.push_str(&format!("  <config {k}=\"{v}\"/>\n"));
    s.push_str("  <rect xy=\"^|h 2\" wh=\"{{randint(1, 9)}}\" text=\"a{{randint(0, 999999)}}\" class=\"d-grid-5 d-red\"/>\n");
    s.push_str("  <loop count=\"3\"><circle r=\"{{random() + 1}}\" cxy=\"{{randint(0, 50)}} {{randint(0, 50)}}\" class=\"d-hatch d-fill-blue\"/></loop>\n");
    if rng.chance(1, 2) {
        s.push_str(&format!("  <config {}=\"{}\"/>\n  <text xy=\"0 60\" text=\"z{{{{random()}}}}\"/>\n", *rng.pick(KEYS), *rng.pick(VALUES)));
    }
    s.push_str("</svg>\n");
    s
}

/// CR LF line ends everywhere, also in content that is copied verbatim (comments, CDATA,
/// attribute values), with runs long enough and a pad random enough that a CR lands on every
/// kind of buffer boundary (8192-byte readers, the simulator's chunk plans).
pub fn crlf_doc(rng: &mut Rng) -> String {
    let pad = rng.usize(300);
    let run = |rng: &mut Rng| {
        let max = if rng.chance(1, 3) { 6000 } else { 200 };
        "\r\n".repeat(20 + rng.usize(max))
    };
    let mut s = String::from("<svg>\r\n");
    s.push_str(&format!("  <!-- {} -->\r\n", "p".repeat(pad)));
    for _ in 0..1 + rng.usize(3) {
        match rng.below(5) {
            0 => s.push_str(&format!("  <!--a{}b-->\r\n", run(rng))),
            1 => s.push_str(&format!("  <text xy=\"0 0\"><![CDATA[c{}d]]></text>\r\n", run(rng))),
            2 => s.push_str(&format!("  <rect wh=\"3\" data-k=\"e{}f\"/>\r\n", run(rng))),
            3 => s.push_str(&format!("  <rect wh=\"4\"\r\n     xy=\"1 2\"\r\n     text=\"two\r\nlines\"/>\r\n{}", run(rng))),
            _ => s.push_str(&format!("  <style>\r\nrect {{ fill: red; }}{}\r\n</style>\r\n", run(rng))),
        }
    }
    s.push_str("  <rect xy=\"^|h 2\" wh=\"2\"/>\r\n</svg>\r\n");
    s
}

/// A document which runs into one of svgdx's limits (configured or internal) and fails: as
/// history it leaves whatever a failed transform can leave behind.
pub fn limit_hitting_doc(rng: &mut Rng) -> String {
    match rng.below(8) {
        0 => {
            // variable lookup budget of one expression
            let mut s = String::from("<svg><var v0=\"1\"/>");
            for i in 1..=16 {
                s.push_str(&format!("<var v{i}=\"{{{{_(join('', '$', 'v{} + ', '$', 'v{}'))}}}}\"/>", i - 1, i - 1));
            }
            s.push_str("<text xy=\"0 0\" text=\"{{$v16}}\"/></svg>");
            s
        }
        1 => format!("<svg><rect wh=\"{{{{{}1{}}}}}\"/></svg>", "(".repeat(130), ")".repeat(130)),
        2 => {
            let mut s = String::from("<svg><clipPath id=\"c0\"><rect wh=\"9\"/></clipPath>");
            for i in 1..=20 {
                s.push_str(&format!("<clipPath id=\"c{i}\" clip-path=\"url(#c{})\"><rect wh=\"9\"/></clipPath>", i - 1));
            }
            s.push_str("<rect id=\"z\" wh=\"5\" clip-path=\"url(#c20)\"/><rect xy=\"#z|h\" wh=\"1\"/></svg>");
            s
        }
        3 => "<svg><loop count=\"1001\"><rect wh=\"1\"/></loop></svg>".to_string(),
        4 => format!("<svg><var v=\"{}\"/><rect wh=\"1\" text=\"$v\"/></svg>", "x".repeat(1025)),
        5 => format!("<svg>{}<rect wh=\"1\"/>{}</svg>", "<g>".repeat(101), "</g>".repeat(101)),
        6 => "<svg><specs><g id=\"a\"><rect wh=\"1\"/><reuse href=\"#a\"/></g></specs><reuse href=\"#a\"/></svg>".to_string(),
        _ => "<svg><var i=\"0\"/><loop while=\"1\"><var i=\"{{$i + 1}}\"/></loop></svg>".to_string(),
    }
}

/// `n` elements which all fail, for counts around the widths such a count might be stored in.
pub fn many_failures_doc(rng: &mut Rng) -> String {
    let n = *rng.pick(&[2usize, 3, 127, 128, 255, 256, 257, 511, 512, 768, 1024]);
    let mut s = String::from("<svg>\n");
    for i in 0..n {
        s.push_str(&format!("<rect xy=\"#nope{i}|h\" wh=\"1\"/>\n"));
    }
    s.push_str("</svg>\n");
    s
}

/// Text a transport might be tempted to decode or re-encode: non-ASCII of every UTF-8 length,
/// plus signs, percent escapes, ampersand entities.
pub fn intl_doc(rng: &mut Rng) -> String {
    let words = ["caf\u{e9}", "na\u{ef}ve", "\u{2192}", "\u{2713}", "\u{1f600}", "1+1=2", "100%41", "%20", "a+b", "\u{dc}n\u{ef}", "x%2By", "\u{3b1}\u{3b2}\u{3b3}", "&amp;", "+"];
    let mut s = String::from("<svg>\n");
    for i in 0..2 + rng.usize(5) {
        let mut t = String::new();
        for _ in 0..1 + rng.usize(5) {
            t.push_str(*rng.pick(&words[..]));
            t.push(' ');
        }
        match rng.below(3) {
            0 => s.push_str(&format!("  <rect xy=\"0 {}\" wh=\"40 8\" text=\"{}\"/>\n", i * 10, t.trim())),
            1 => s.push_str(&format!("  <text xy=\"0 {}\">{}</text>\n", i * 10, t.trim())),
            _ => s.push_str(&format!("  <rect xy=\"0 {}\" wh=\"{{{{10+{}}}}} 8\" data-k=\"{}\"/>\n", i * 10, rng.below(20), t.trim())),
        }
    }
    s.push_str("</svg>\n");
    s
}

pub const THEMES: &[&str] = &["default", "bold", "fine", "glass", "light", "dark"];

/// A configuration with limits at or below their defaults.
pub fn draw_cfg(rng: &mut Rng, allow_local_styles: bool) -> Cfg {
    let mut c = Cfg::default();
    if rng.chance(1, 2) {
        return c;
    }
    if rng.chance(1, 4) {
        c.debug = true;
    }
    if rng.chance(1, 4) {
        c.scale = *rng.pick(&[0.5f32, 2.0, 1.5, 10.0]);
    }
    if rng.chance(1, 4) {
        c.border = rng.below(20) as u16;
    }
    if rng.chance(1, 6) {
        c.add_auto_styles = false;
    }
    if rng.chance(1, 6) {
        c.background = rng.pick(&["white", "#eee", "none", "lightblue"]).to_string();
    }
    if rng.chance(1, 2) {
        c.seed = rng.below(1000);
    }
    if rng.chance(1, 8) {
        c.loop_limit = 1 + rng.below(1000) as u32;
    }
    if rng.chance(1, 8) {
        c.var_limit = 1 + rng.below(1024) as u32;
    }
    if rng.chance(1, 8) {
        c.depth_limit = 1 + rng.below(100) as u32;
    }
    if rng.chance(1, 4) {
        c.add_metadata = true;
    }
    if rng.chance(1, 6) {
        c.font_size = *rng.pick(&[2.0f32, 4.5, 6.0]);
    }
    if rng.chance(1, 6) {
        c.font_family = rng.pick(&["monospace", "serif", "Open Sans"]).to_string();
    }
    if rng.chance(1, 3) {
        c.theme = rng.pick(THEMES).to_string();
    }
    if allow_local_styles && rng.chance(1, 4) {
        c.use_local_styles = true;
    }
    if rng.chance(1, 8) {
        c.svg_style = Some("border: 1px solid".to_string());
    }
    c
}
