//! Shared types: tiers, run results, engine interface, configuration mirror.

use serde::{Deserialize, Serialize};
use serde_json::Value;
use std::collections::BTreeMap;
use std::path::PathBuf;

#[derive(Clone, Copy, Debug, PartialEq, Eq)]
pub enum Tier {
    Quick,
    Thorough,
}

impl Tier {
    pub fn parse(s: &str) -> Option<Tier> {
        match s {
            "quick" => Some(Tier::Quick),
            "thorough" => Some(Tier::Thorough),
            _ => None,
        }
    }
    pub fn name(&self) -> &'static str {
        match self {
            Tier::Quick => "quick",
            Tier::Thorough => "thorough",
        }
    }
}

#[derive(Serialize, Deserialize, Clone, Debug, PartialEq)]
pub struct Violation {
    /// which oracle failed, e.g. "isolation/bytes-differ"
    pub oracle: String,
    /// stable classification used to match known findings and to steer minimisation
    pub signature: String,
    /// human readable: observed vs expected
    pub detail: String,
}

#[derive(Serialize, Deserialize, Clone, Debug, Default)]
pub struct RunStats {
    /// transforms / front-end calls executed by this run
    pub evaluations: u64,
    /// distinctness fingerprint of (scenario shape, schedule, fault plan, outcome class)
    pub fingerprint: u64,
    /// non-trivial by the engine's stated rule
    pub nontrivial: bool,
    /// faults that actually fired, by kind
    pub faults: BTreeMap<String, u64>,
    /// "this rare condition was hit" probes
    pub probes: BTreeMap<String, u64>,
    /// front-end calls by kind
    pub frontends: BTreeMap<String, u64>,
    /// logical steps (yield points reached: element evaluations, stream I/O calls)
    pub steps: u64,
    /// context switches decided by the scheduler
    pub switches: u64,
    /// simulated wall clock values used (ns), min and max
    pub clock_min: u64,
    pub clock_max: u64,
    /// outcome classes seen: ok / err / ...
    pub outcomes: BTreeMap<String, u64>,
    /// wall milliseconds of this run inside the worker (diagnostic; never enters a hash)
    #[serde(default)]
    pub elapsed_ms: u64,
}

impl RunStats {
    pub fn bump(map: &mut BTreeMap<String, u64>, k: &str) {
        *map.entry(k.to_string()).or_insert(0) += 1;
    }
    pub fn fault(&mut self, k: &str) {
        Self::bump(&mut self.faults, k)
    }
    pub fn probe(&mut self, k: &str) {
        Self::bump(&mut self.probes, k)
    }
    pub fn probe_n(&mut self, k: &str, n: u64) {
        if n > 0 {
            *self.probes.entry(k.to_string()).or_insert(0) += n;
        }
    }
    pub fn frontend(&mut self, k: &str) {
        Self::bump(&mut self.frontends, k)
    }
    pub fn outcome(&mut self, k: &str) {
        Self::bump(&mut self.outcomes, k)
    }
    pub fn clock(&mut self, ns: u64) {
        if self.clock_min == 0 || ns < self.clock_min {
            self.clock_min = ns;
        }
        if ns > self.clock_max {
            self.clock_max = ns;
        }
    }
    pub fn merge(&mut self, o: &RunStats) {
        self.evaluations += o.evaluations;
        self.steps += o.steps;
        self.switches += o.switches;
        for (k, v) in &o.faults {
            *self.faults.entry(k.clone()).or_insert(0) += v;
        }
        for (k, v) in &o.probes {
            *self.probes.entry(k.clone()).or_insert(0) += v;
        }
        for (k, v) in &o.frontends {
            *self.frontends.entry(k.clone()).or_insert(0) += v;
        }
        for (k, v) in &o.outcomes {
            *self.outcomes.entry(k.clone()).or_insert(0) += v;
        }
        if o.clock_min != 0 {
            self.clock(o.clock_min);
        }
        if o.clock_max != 0 {
            self.clock(o.clock_max);
        }
    }
}

#[derive(Serialize, Deserialize, Clone, Debug, Default)]
pub struct RunResult {
    pub violations: Vec<Violation>,
    pub stats: RunStats,
    /// a condition of the harness itself (never a verdict) -> exit 2
    pub harness_error: Option<String>,
}

impl RunResult {
    pub fn violation(&mut self, oracle: &str, signature: &str, detail: String) {
        // one entry per signature and run is enough
        if self.violations.iter().any(|v| v.signature == signature) {
            return;
        }
        let mut detail = detail;
        if detail.len() > 2000 {
            let mut cut = 2000;
            while !detail.is_char_boundary(cut) {
                cut -= 1;
            }
            detail.truncate(cut);
            detail.push_str("...");
        }
        self.violations.push(Violation {
            oracle: oracle.to_string(),
            signature: signature.to_string(),
            detail,
        });
    }
}

/// What a worker knows about its surroundings.
#[derive(Clone, Debug)]
pub struct WorkerEnv {
    pub tier: Tier,
    /// private scratch directory of this worker (under /verif/.scratch)
    pub scratch: PathBuf,
    /// directory holding the sim, svgdx and svgdx-server binaries
    pub bin_dir: PathBuf,
    /// path of libverifseam.so
    pub seam_lib: PathBuf,
    /// /repo
    pub repo: PathBuf,
}

pub trait Engine: Sync {
    fn id(&self) -> &'static str;
    fn runs(&self, tier: Tier) -> u64;
    /// Scenario of run `index`; a pure function of (seed, index, tier) and of the
    /// files under /repo/examples.
    fn generate(&self, seed: u64, index: u64, tier: Tier, env: &WorkerEnv) -> Value;
    /// Execute one explicit scenario (nothing is regenerated from a seed).
    fn execute(&self, scenario: &Value, env: &WorkerEnv) -> RunResult;
    /// Smaller candidate scenarios, most aggressive first.
    fn shrink(&self, scenario: &Value) -> Vec<Value>;
    /// Signature given to a run the worker process did not survive.
    fn crash_signature(&self, _scenario: &Value, kind: &str) -> String {
        format!("{}:{}", self.id(), kind)
    }
    fn rule(&self) -> &'static str;
    fn components_real(&self) -> Vec<&'static str>;
    fn components_stub(&self) -> Vec<&'static str>;
    fn assumptions(&self) -> Vec<&'static str>;
    /// Start every run in a fresh worker process, so that process-wide state cannot carry
    /// over from an earlier run (one run = one process history; needed for replayability
    /// of history-dependent failures)
    fn fresh_process_per_run(&self) -> bool {
        false
    }
    /// CPU seconds one run may use before it is a hang
    fn cpu_budget_s(&self, _tier: Tier) -> f64 {
        10.0
    }
}

// ---------------------------------------------------------------------------------------------
// Configuration mirror (serialisable; maps to TransformConfig and to CLI flags)

#[derive(Serialize, Deserialize, Clone, Debug, PartialEq)]
pub struct Cfg {
    #[serde(default)]
    pub debug: bool,
    #[serde(default = "one")]
    pub scale: f32,
    #[serde(default = "five")]
    pub border: u16,
    #[serde(default = "yes")]
    pub add_auto_styles: bool,
    #[serde(default = "dflt")]
    pub background: String,
    #[serde(default)]
    pub seed: u64,
    #[serde(default = "ll")]
    pub loop_limit: u32,
    #[serde(default = "vl")]
    pub var_limit: u32,
    #[serde(default = "dl")]
    pub depth_limit: u32,
    #[serde(default)]
    pub add_metadata: bool,
    #[serde(default = "three")]
    pub font_size: f32,
    #[serde(default = "sans")]
    pub font_family: String,
    #[serde(default = "dflt")]
    pub theme: String,
    #[serde(default)]
    pub use_local_styles: bool,
    #[serde(default)]
    pub svg_style: Option<String>,
}

fn one() -> f32 {
    1.0
}
fn five() -> u16 {
    5
}
fn yes() -> bool {
    true
}
fn dflt() -> String {
    "default".into()
}
fn ll() -> u32 {
    1000
}
fn vl() -> u32 {
    1024
}
fn dl() -> u32 {
    100
}
fn three() -> f32 {
    3.0
}
fn sans() -> String {
    "sans-serif".into()
}

impl Default for Cfg {
    fn default() -> Self {
        Cfg {
            debug: false,
            scale: 1.0,
            border: 5,
            add_auto_styles: true,
            background: dflt(),
            seed: 0,
            loop_limit: 1000,
            var_limit: 1024,
            depth_limit: 100,
            add_metadata: false,
            font_size: 3.0,
            font_family: sans(),
            theme: dflt(),
            use_local_styles: false,
            svg_style: None,
        }
    }
}

impl Cfg {
    pub fn to_transform_config(&self) -> svgdx::TransformConfig {
        let mut c = svgdx::TransformConfig::default();
        c.debug = self.debug;
        c.scale = self.scale;
        c.border = self.border;
        c.add_auto_styles = self.add_auto_styles;
        c.background = self.background.clone();
        c.seed = self.seed;
        c.loop_limit = self.loop_limit;
        c.var_limit = self.var_limit;
        c.depth_limit = self.depth_limit;
        c.add_metadata = self.add_metadata;
        c.font_size = self.font_size;
        c.font_family = self.font_family.clone();
        c.theme = self.theme.parse().unwrap_or_default();
        c.use_local_styles = self.use_local_styles;
        c.svg_style = self.svg_style.clone();
        c
    }

    /// The equivalent `svgdx` command line flags (no file arguments).
    pub fn to_cli_args(&self) -> Vec<String> {
        let d = Cfg::default();
        let mut a = Vec::new();
        if self.debug {
            a.push("--debug".to_string());
        }
        if self.scale != d.scale {
            a.push("--scale".into());
            a.push(format!("{}", self.scale));
        }
        if self.border != d.border {
            a.push("--border".into());
            a.push(format!("{}", self.border));
        }
        if !self.add_auto_styles {
            a.push("--no-auto-styles".into());
        }
        if self.background != d.background {
            a.push("--background".into());
            a.push(self.background.clone());
        }
        if self.seed != d.seed {
            a.push("--seed".into());
            a.push(format!("{}", self.seed));
        }
        if self.loop_limit != d.loop_limit {
            a.push("--loop-limit".into());
            a.push(format!("{}", self.loop_limit));
        }
        if self.var_limit != d.var_limit {
            a.push("--var-limit".into());
            a.push(format!("{}", self.var_limit));
        }
        if self.depth_limit != d.depth_limit {
            a.push("--depth-limit".into());
            a.push(format!("{}", self.depth_limit));
        }
        if self.add_metadata {
            a.push("--add-metadata".into());
        }
        if self.font_size != d.font_size {
            a.push("--font-size".into());
            a.push(format!("{}", self.font_size));
        }
        if self.font_family != d.font_family {
            a.push("--font-family".into());
            a.push(self.font_family.clone());
        }
        if self.theme != d.theme {
            a.push("--theme".into());
            a.push(self.theme.clone());
        }
        if self.use_local_styles {
            a.push("--use-local-styles".into());
        }
        if let Some(s) = &self.svg_style {
            a.push("--svg-style".into());
            a.push(s.clone());
        }
        a
    }

    /// True if the server endpoint can express this configuration
    pub fn server_expressible(&self) -> bool {
        let mut d = Cfg::default();
        d.add_metadata = self.add_metadata;
        *self == d
    }
}

/// A document: arbitrary bytes. Serialised as text when it is valid UTF-8
/// (readable replay files), as hex otherwise.
#[derive(Clone, Debug, PartialEq, Eq, PartialOrd, Ord)]
pub struct Doc(pub Vec<u8>);

impl Doc {
    pub fn from_str(s: &str) -> Doc {
        Doc(s.as_bytes().to_vec())
    }
    pub fn as_str(&self) -> Option<&str> {
        std::str::from_utf8(&self.0).ok()
    }
    pub fn lossy(&self) -> String {
        String::from_utf8_lossy(&self.0).into_owned()
    }
}

impl Serialize for Doc {
    fn serialize<S: serde::Serializer>(&self, s: S) -> Result<S::Ok, S::Error> {
        use serde::ser::SerializeMap;
        let mut m = s.serialize_map(Some(1))?;
        match std::str::from_utf8(&self.0) {
            Ok(t) => m.serialize_entry("text", t)?,
            Err(_) => m.serialize_entry("hex", &hex(&self.0))?,
        }
        m.end()
    }
}

impl<'de> Deserialize<'de> for Doc {
    fn deserialize<D: serde::Deserializer<'de>>(d: D) -> Result<Doc, D::Error> {
        let v = Value::deserialize(d)?;
        if let Some(t) = v.get("text").and_then(|t| t.as_str()) {
            return Ok(Doc(t.as_bytes().to_vec()));
        }
        if let Some(h) = v.get("hex").and_then(|t| t.as_str()) {
            return unhex(h).map(Doc).ok_or_else(|| serde::de::Error::custom("bad hex"));
        }
        Err(serde::de::Error::custom("doc needs text or hex"))
    }
}

pub fn hex(b: &[u8]) -> String {
    let mut s = String::with_capacity(b.len() * 2);
    for c in b {
        s.push_str(&format!("{:02x}", c));
    }
    s
}

pub fn unhex(s: &str) -> Option<Vec<u8>> {
    if s.len() % 2 != 0 {
        return None;
    }
    (0..s.len())
        .step_by(2)
        .map(|i| u8::from_str_radix(s.get(i..i + 2)?, 16).ok())
        .collect()
}

pub fn shorten(s: &str, n: usize) -> String {
    if s.len() <= n {
        return s.to_string();
    }
    let mut cut = n;
    while !s.is_char_boundary(cut) {
        cut -= 1;
    }
    format!("{}...[{} bytes]", &s[..cut], s.len())
}
