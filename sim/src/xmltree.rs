//! A small XML tree (via quick-xml) used to analyse outputs and to shrink documents.

use quick_xml::events::Event;
use quick_xml::Reader;

#[derive(Clone, Debug, PartialEq)]
pub enum Node {
    Elem {
        name: String,
        /// raw (still escaped) attribute values, in document order
        attrs: Vec<(String, String)>,
        children: Vec<Node>,
        empty: bool,
    },
    Text(String),
    /// comment, CDATA, PI, declaration, doctype: kept verbatim
    Raw(String),
}

impl Node {
    pub fn attr(&self, k: &str) -> Option<&str> {
        match self {
            Node::Elem { attrs, .. } => attrs.iter().find(|(a, _)| a == k).map(|(_, v)| v.as_str()),
            _ => None,
        }
    }
    pub fn name(&self) -> Option<&str> {
        match self {
            Node::Elem { name, .. } => Some(name),
            _ => None,
        }
    }
    pub fn children(&self) -> &[Node] {
        match self {
            Node::Elem { children, .. } => children,
            _ => &[],
        }
    }
    /// concatenated character data below this node (entities left escaped)
    pub fn text(&self) -> String {
        match self {
            Node::Text(t) => t.clone(),
            Node::Raw(r) => {
                if let Some(c) = r.strip_prefix("<![CDATA[").and_then(|x| x.strip_suffix("]]>")) {
                    c.to_string()
                } else {
                    String::new()
                }
            }
            Node::Elem { children, .. } => children.iter().map(|c| c.text()).collect(),
        }
    }
}

pub fn parse(s: &str) -> Option<Vec<Node>> {
    let mut reader = Reader::from_str(s);
    let mut stack: Vec<(String, Vec<(String, String)>, Vec<Node>)> = Vec::new();
    let mut top: Vec<Node> = Vec::new();
    fn push(stack: &mut Vec<(String, Vec<(String, String)>, Vec<Node>)>, top: &mut Vec<Node>, n: Node) {
        if let Some(last) = stack.last_mut() {
            last.2.push(n);
        } else {
            top.push(n);
        }
    }
    fn attrs_of(e: &quick_xml::events::BytesStart) -> Option<Vec<(String, String)>> {
        let mut v = Vec::new();
        for a in e.attributes().with_checks(false) {
            let a = a.ok()?;
            v.push((
                String::from_utf8(a.key.as_ref().to_vec()).ok()?,
                String::from_utf8(a.value.to_vec()).ok()?,
            ));
        }
        Some(v)
    }
    loop {
        match reader.read_event() {
            Ok(Event::Eof) => break,
            Ok(Event::Start(e)) => {
                let name = String::from_utf8(e.name().as_ref().to_vec()).ok()?;
                stack.push((name, attrs_of(&e)?, Vec::new()));
            }
            Ok(Event::End(_)) => {
                let (name, attrs, children) = stack.pop()?;
                push(
                    &mut stack,
                    &mut top,
                    Node::Elem {
                        name,
                        attrs,
                        children,
                        empty: false,
                    },
                );
            }
            Ok(Event::Empty(e)) => {
                let name = String::from_utf8(e.name().as_ref().to_vec()).ok()?;
                let attrs = attrs_of(&e)?;
                push(
                    &mut stack,
                    &mut top,
                    Node::Elem {
                        name,
                        attrs,
                        children: Vec::new(),
                        empty: true,
                    },
                );
            }
            Ok(Event::Text(t)) => {
                let t = String::from_utf8(t.to_vec()).ok()?;
                push(&mut stack, &mut top, Node::Text(t));
            }
            Ok(Event::CData(t)) => {
                let t = String::from_utf8(t.to_vec()).ok()?;
                push(&mut stack, &mut top, Node::Raw(format!("<![CDATA[{t}]]>")));
            }
            Ok(Event::Comment(t)) => {
                let t = String::from_utf8(t.to_vec()).ok()?;
                push(&mut stack, &mut top, Node::Raw(format!("<!--{t}-->")));
            }
            Ok(Event::PI(t)) => {
                let t = String::from_utf8(t.to_vec()).ok()?;
                push(&mut stack, &mut top, Node::Raw(format!("<?{t}?>")));
            }
            Ok(Event::Decl(t)) => {
                let t = String::from_utf8(t.to_vec()).ok()?;
                push(&mut stack, &mut top, Node::Raw(format!("<?{t}?>")));
            }
            Ok(Event::DocType(t)) => {
                let t = String::from_utf8(t.to_vec()).ok()?;
                push(&mut stack, &mut top, Node::Raw(format!("<!DOCTYPE {t}>")));
            }
            Err(_) => return None,
        }
    }
    if !stack.is_empty() {
        return None;
    }
    Some(top)
}

pub fn render(nodes: &[Node]) -> String {
    let mut s = String::new();
    for n in nodes {
        render_into(n, &mut s);
    }
    s
}

fn render_into(n: &Node, s: &mut String) {
    match n {
        Node::Text(t) => s.push_str(t),
        Node::Raw(r) => s.push_str(r),
        Node::Elem {
            name,
            attrs,
            children,
            empty,
        } => {
            s.push('<');
            s.push_str(name);
            for (k, v) in attrs {
                s.push(' ');
                s.push_str(k);
                s.push_str("=\"");
                s.push_str(v);
                s.push('"');
            }
            if *empty && children.is_empty() {
                s.push_str("/>");
            } else {
                s.push('>');
                for c in children {
                    render_into(c, s);
                }
                s.push_str("</");
                s.push_str(name);
                s.push('>');
            }
        }
    }
}

/// All elements in document order (depth-first).
pub fn walk<'a>(nodes: &'a [Node], out: &mut Vec<&'a Node>) {
    for n in nodes {
        if let Node::Elem { children, .. } = n {
            out.push(n);
            walk(children, out);
        }
    }
}

// --- shrinking --------------------------------------------------------------------------------

fn count_nodes(nodes: &[Node]) -> usize {
    nodes
        .iter()
        .map(|n| match n {
            Node::Elem { children, .. } => 1 + count_nodes(children),
            _ => 1,
        })
        .sum()
}

/// Apply `f` to the node list at `path` (indices into nested children lists).
fn with_list<R>(nodes: &mut Vec<Node>, path: &[usize], f: &mut dyn FnMut(&mut Vec<Node>) -> R) -> Option<R> {
    if path.is_empty() {
        return Some(f(nodes));
    }
    match nodes.get_mut(path[0])? {
        Node::Elem { children, .. } => with_list(children, &path[1..], f),
        _ => None,
    }
}

fn list_paths(nodes: &[Node], prefix: &mut Vec<usize>, out: &mut Vec<Vec<usize>>) {
    out.push(prefix.clone());
    for (i, n) in nodes.iter().enumerate() {
        if let Node::Elem { children, .. } = n {
            prefix.push(i);
            list_paths(children, prefix, out);
            prefix.pop();
        }
    }
}

/// XML-aware shrink candidates of a document, most aggressive first; falls back to byte
/// level chunk removal when the document is not well-formed.
pub fn shrink_candidates(doc: &[u8]) -> Vec<Vec<u8>> {
    let mut out: Vec<Vec<u8>> = Vec::new();
    if let Some(tree) = std::str::from_utf8(doc).ok().and_then(parse) {
        let mut paths = Vec::new();
        list_paths(&tree, &mut Vec::new(), &mut paths);
        // 1. delete nodes, biggest subtrees first
        let mut dels: Vec<(usize, Vec<usize>, usize)> = Vec::new();
        for p in &paths {
            let mut t = tree.clone();
            if let Some(list) = with_list(&mut t, p, &mut |l| l.clone()) {
                for (i, n) in list.iter().enumerate() {
                    let size = count_nodes(std::slice::from_ref(n));
                    dels.push((size, p.clone(), i));
                }
            }
        }
        dels.sort_by(|a, b| b.0.cmp(&a.0));
        for (_, p, i) in dels.iter().take(200) {
            let mut t = tree.clone();
            with_list(&mut t, p, &mut |l| {
                l.remove(*i);
            });
            out.push(render(&t).into_bytes());
        }
        // 2. hoist: replace an element by its children
        for p in &paths {
            let mut t0 = tree.clone();
            let len = with_list(&mut t0, p, &mut |l| l.len()).unwrap_or(0);
            for i in 0..len {
                let mut t = tree.clone();
                let done = with_list(&mut t, p, &mut |l| {
                    if let Node::Elem { children, .. } = &l[i] {
                        if children.is_empty() {
                            return false;
                        }
                        let ch = children.clone();
                        l.splice(i..i + 1, ch);
                        true
                    } else {
                        false
                    }
                });
                if done == Some(true) {
                    out.push(render(&t).into_bytes());
                }
            }
        }
        // 3. delete attributes; 4. shorten attribute values (drop list items / class tokens)
        for p in &paths {
            let mut t0 = tree.clone();
            let list = with_list(&mut t0, p, &mut |l| l.clone()).unwrap_or_default();
            for (i, n) in list.iter().enumerate() {
                if let Node::Elem { attrs, .. } = n {
                    for ai in 0..attrs.len() {
                        let mut t = tree.clone();
                        with_list(&mut t, p, &mut |l| {
                            if let Node::Elem { attrs, .. } = &mut l[i] {
                                attrs.remove(ai);
                            }
                        });
                        out.push(render(&t).into_bytes());
                    }
                    for (ai, (_, v)) in attrs.iter().enumerate() {
                        let toks: Vec<&str> = v.split(' ').collect();
                        if toks.len() > 1 && toks.len() <= 12 {
                            for ti in 0..toks.len() {
                                let mut nt = toks.clone();
                                nt.remove(ti);
                                let nv = nt.join(" ");
                                let mut t = tree.clone();
                                with_list(&mut t, p, &mut |l| {
                                    if let Node::Elem { attrs, .. } = &mut l[i] {
                                        attrs[ai].1 = nv.clone();
                                    }
                                });
                                out.push(render(&t).into_bytes());
                            }
                        } else if v.len() > 16 {
                            let mut cut = v.len() / 2;
                            while !v.is_char_boundary(cut) {
                                cut -= 1;
                            }
                            let nv = v[..cut].to_string();
                            let mut t = tree.clone();
                            with_list(&mut t, p, &mut |l| {
                                if let Node::Elem { attrs, .. } = &mut l[i] {
                                    attrs[ai].1 = nv.clone();
                                }
                            });
                            out.push(render(&t).into_bytes());
                        }
                    }
                }
            }
        }
        // 5. drop whitespace-only text
        {
            fn strip(nodes: &mut Vec<Node>) {
                nodes.retain(|n| !matches!(n, Node::Text(t) if t.trim().is_empty()));
                for n in nodes.iter_mut() {
                    if let Node::Elem { children, .. } = n {
                        strip(children);
                    }
                }
            }
            let mut t = tree.clone();
            strip(&mut t);
            out.push(render(&t).into_bytes());
        }
    }
    if out.is_empty() {
        out.extend(byte_chunks(doc));
    }
    out.retain(|c| c.as_slice() != doc);
    out
}

/// ddmin-style byte candidates: remove one chunk of len n/2, n/4, ... (bounded).
pub fn byte_chunks(doc: &[u8]) -> Vec<Vec<u8>> {
    let mut out = Vec::new();
    let n = doc.len();
    if n == 0 {
        return out;
    }
    let mut size = n / 2;
    let mut total = 0;
    while size >= 1 && total < 160 {
        let mut start = 0;
        while start < n && total < 160 {
            let end = (start + size).min(n);
            let mut c = Vec::with_capacity(n - (end - start));
            c.extend_from_slice(&doc[..start]);
            c.extend_from_slice(&doc[end..]);
            out.push(c);
            total += 1;
            start += size;
        }
        if size == 1 {
            break;
        }
        size /= 2;
    }
    out
}

#[cfg(test)]
mod tests {
    use super::*;
    #[test]
    fn roundtrip() {
        let s = r#"<svg a="1"><rect x="1"/><!-- c --><g>t<b/></g></svg>"#;
        let t = parse(s).unwrap();
        assert_eq!(render(&t), s);
        assert!(!shrink_candidates(s.as_bytes()).is_empty());
    }
}
