//! The turnstile scheduler: simulated threads are real std threads, but exactly one
//! holds the token at any time and *who runs next* is decided here, from the
//! scheduler sub-stream of the run seed (or from a recorded decision list on replay).
//!
//! Between two yield points the code under test touches no OS synchronisation, so the
//! decision list *is* the interleaving.

use crate::rng::Rng;
use serde::{Deserialize, Serialize};
use std::collections::{BTreeMap, BTreeSet};
use std::sync::{Arc, Condvar, Mutex};

#[derive(Clone, Copy, Debug, PartialEq, Eq, Serialize, Deserialize)]
pub enum Site {
    Start,
    Read,
    Write,
    ElemEnter,
    ElemExit,
    Req,
    RngDraw,
    AttrEval,
}

impl Site {
    pub fn code(&self) -> u8 {
        match self {
            Site::Start => 0,
            Site::Read => 1,
            Site::Write => 2,
            Site::ElemEnter => 3,
            Site::ElemExit => 4,
            Site::Req => 5,
            Site::RngDraw => 6,
            Site::AttrEval => 7,
        }
    }
}

#[derive(Clone, Debug, Serialize, Deserialize, PartialEq)]
pub enum Policy {
    /// baseline: a thread keeps the token until it finishes (lowest id first)
    Sequential,
    /// uniform choice among runnable threads at every yield point
    Uniform,
    /// keep the current thread with probability keep/16, else uniform
    Sticky { keep: u8 },
    /// PCT-like: random priorities, `d` priority-lowering change points
    Pct { d: u8, horizon: u32 },
}

pub enum Sched {
    Draw {
        rng: Rng,
        policy: Policy,
        prio: BTreeMap<usize, i64>,
        change_points: Vec<u64>,
    },
    /// replay: use the recorded decisions; if one does not fit (scenario was shrunk),
    /// fall back to the lowest runnable id and count the divergence
    Fixed { decisions: Vec<u32>, pos: usize },
}

impl Sched {
    pub fn draw(seed: u64, policy: Policy, threads: usize) -> Sched {
        let mut rng = Rng::sub(seed, "scheduler");
        let mut prio = BTreeMap::new();
        let mut order: Vec<usize> = (0..threads).collect();
        rng.shuffle(&mut order);
        for (rank, t) in order.iter().enumerate() {
            prio.insert(*t, 1000 + rank as i64);
        }
        let mut change_points = Vec::new();
        if let Policy::Pct { d, horizon } = &policy {
            for _ in 0..*d {
                change_points.push(rng.below((*horizon).max(1) as u64));
            }
            change_points.sort();
        }
        Sched::Draw {
            rng,
            policy,
            prio,
            change_points,
        }
    }

    fn pick(&mut self, runnable: &BTreeSet<usize>, current: Option<usize>, step: u64, diverged: &mut u64) -> usize {
        let first = *runnable.iter().next().expect("pick on empty runnable set");
        match self {
            Sched::Fixed { decisions, pos } => {
                let d = decisions.get(*pos).copied();
                *pos += 1;
                match d {
                    Some(t) if runnable.contains(&(t as usize)) => t as usize,
                    _ => {
                        *diverged += 1;
                        match current {
                            Some(c) if runnable.contains(&c) => c,
                            _ => first,
                        }
                    }
                }
            }
            Sched::Draw {
                rng,
                policy,
                prio,
                change_points,
            } => match policy {
                Policy::Sequential => match current {
                    Some(c) if runnable.contains(&c) => c,
                    _ => first,
                },
                Policy::Uniform => {
                    let v: Vec<usize> = runnable.iter().copied().collect();
                    v[rng.usize(v.len())]
                }
                Policy::Sticky { keep } => {
                    let stay = rng.below(16) < *keep as u64;
                    match current {
                        Some(c) if stay && runnable.contains(&c) => c,
                        _ => {
                            let v: Vec<usize> = runnable.iter().copied().collect();
                            v[rng.usize(v.len())]
                        }
                    }
                }
                Policy::Pct { .. } => {
                    while let Some(cp) = change_points.first().copied() {
                        if cp <= step {
                            change_points.remove(0);
                            if let Some(c) = current {
                                // lower the running thread below everything else
                                let low = prio.values().copied().min().unwrap_or(0) - 1;
                                prio.insert(c, low);
                            }
                        } else {
                            break;
                        }
                    }
                    *runnable
                        .iter()
                        .max_by_key(|t| prio.get(t).copied().unwrap_or(0))
                        .unwrap()
                }
            },
        }
    }
}

pub struct TsState {
    current: Option<usize>,
    runnable: BTreeSet<usize>,
    live: BTreeSet<usize>,
    sched: Sched,
    pub decisions: Vec<u32>,
    /// (thread, site code) at every yield point, in global order
    pub log: Vec<(u32, u8)>,
    pub steps: u64,
    pub switches: u64,
    pub diverged: u64,
    /// times the token was handed on because its holder was blocked outside the simulator
    pub stolen: u64,
    /// per site: number of context switches that happened there
    pub switch_sites: BTreeMap<u8, u64>,
    step_budget: u64,
    started: bool,
}

/// Payload of the panic used to stop a simulated thread that exceeded the step budget.
pub struct StepBudgetExceeded;

pub struct Turnstile {
    inner: Mutex<TsState>,
    cv: Condvar,
}

impl Turnstile {
    pub fn new(sched: Sched, step_budget: u64) -> Arc<Turnstile> {
        Arc::new(Turnstile {
            inner: Mutex::new(TsState {
                current: None,
                runnable: BTreeSet::new(),
                live: BTreeSet::new(),
                sched,
                decisions: Vec::new(),
                log: Vec::new(),
                steps: 0,
                switches: 0,
                diverged: 0,
                stolen: 0,
                switch_sites: BTreeMap::new(),
                step_budget,
                started: false,
            }),
            cv: Condvar::new(),
        })
    }

    /// Register a simulated thread before any runs (called by the coordinator).
    pub fn register(&self, tid: usize) {
        let mut st = self.inner.lock().unwrap();
        st.runnable.insert(tid);
        st.live.insert(tid);
    }

    /// First thing a simulated thread does: wait for the token.
    pub fn begin(&self, tid: usize) {
        let mut st = self.inner.lock().unwrap();
        while st.current != Some(tid) {
            st = self.cv.wait(st).unwrap();
        }
    }

    /// Coordinator: hand out the first token, then wait until every thread finished.
    pub fn run(&self) {
        let mut st = self.inner.lock().unwrap();
        st.started = true;
        if !st.runnable.is_empty() {
            let TsState {
                sched,
                runnable,
                current,
                steps,
                diverged,
                ..
            } = &mut *st;
            let next = sched.pick(runnable, *current, *steps, diverged);
            st.runnable.remove(&next);
            st.decisions.push(next as u32);
            st.current = Some(next);
            self.cv.notify_all();
        }
        // Wait for all threads. If the token holder makes no step for a long wall-clock time
        // while other threads are parked, it is blocked in something the simulator does not
        // own (typically a std Mutex held by a parked thread). Hand the token to a parked
        // thread so that the lock holder can run on; the blocked thread resumes by itself when
        // the lock is released and rejoins the protocol at its next yield point. This only
        // ever happens on code that takes OS locks across yield points; it trades exact
        // replay of that run for not dead-locking the simulation.
        let mut last_steps = st.steps;
        let mut stalled_for = std::time::Duration::ZERO;
        let tick = std::time::Duration::from_millis(200);
        while !st.live.is_empty() {
            let (g, timeout) = self.cv.wait_timeout(st, tick).unwrap();
            st = g;
            if !timeout.timed_out() || st.steps != last_steps {
                last_steps = st.steps;
                stalled_for = std::time::Duration::ZERO;
                continue;
            }
            stalled_for += tick;
            if stalled_for >= std::time::Duration::from_millis(3000) && !st.runnable.is_empty() {
                let next = *st.runnable.iter().next().unwrap();
                st.runnable.remove(&next);
                st.stolen += 1;
                st.current = Some(next);
                stalled_for = std::time::Duration::ZERO;
                self.cv.notify_all();
            }
        }
    }

    /// A yield point reached by thread `tid`.
    pub fn yield_point(&self, tid: usize, site: Site) {
        let mut st = self.inner.lock().unwrap();
        st.steps += 1;
        st.log.push((tid as u32, site.code()));
        if st.steps > st.step_budget {
            drop(st);
            std::panic::panic_any(StepBudgetExceeded);
        }
        st.runnable.insert(tid);
        if st.current != Some(tid) {
            // the token was taken from this thread while it was blocked outside the
            // simulator: just queue up for it again
            while st.current != Some(tid) {
                st = self.cv.wait(st).unwrap();
            }
            return;
        }
        let TsState {
            sched,
            runnable,
            current,
            steps,
            diverged,
            ..
        } = &mut *st;
        let next = sched.pick(runnable, *current, *steps, diverged);
        st.runnable.remove(&next);
        st.decisions.push(next as u32);
        if next != tid {
            st.switches += 1;
            *st.switch_sites.entry(site.code()).or_insert(0) += 1;
            st.current = Some(next);
            self.cv.notify_all();
            while st.current != Some(tid) {
                st = self.cv.wait(st).unwrap();
            }
        }
    }

    /// Thread `tid` is done (normally or by unwinding).
    pub fn finish(&self, tid: usize) {
        let mut st = self.inner.lock().unwrap();
        st.live.remove(&tid);
        st.runnable.remove(&tid);
        if st.current == Some(tid) {
            if st.runnable.is_empty() {
                st.current = None;
            } else {
                let TsState {
                    sched,
                    runnable,
                    steps,
                    diverged,
                    ..
                } = &mut *st;
                let next = sched.pick(runnable, None, *steps, diverged);
                st.runnable.remove(&next);
                st.decisions.push(next as u32);
                st.current = Some(next);
            }
        }
        self.cv.notify_all();
    }

    pub fn with_state<R>(&self, f: impl FnOnce(&TsState) -> R) -> R {
        let st = self.inner.lock().unwrap();
        f(&st)
    }
}

/// Fingerprint of an interleaving: the decision list restricted to context switches.
pub fn switch_fingerprint(log: &[(u32, u8)]) -> u64 {
    let mut bytes = Vec::new();
    let mut last: Option<u32> = None;
    for (t, s) in log {
        if last != Some(*t) {
            bytes.extend_from_slice(&t.to_le_bytes());
            bytes.push(*s);
            last = Some(*t);
        }
    }
    crate::rng::hash_bytes(&bytes)
}
