//! Driver: partitions run indices over worker processes, contains aborts and hangs,
//! merges results in index order, minimises and writes replay files, applies the
//! known-findings list, writes the evidence file.

use crate::core::*;
use crate::rng;
use serde_json::{json, Value};
use std::collections::{BTreeMap, BTreeSet};
use std::io::{BufRead, BufReader, Write};
use std::path::{Path, PathBuf};
use std::process::{Child, ChildStdin, Command, Stdio};
use std::sync::atomic::{AtomicU64, Ordering};
use std::sync::mpsc::{channel, Receiver, RecvTimeoutError};
use std::sync::{Arc, Mutex};
use std::time::{Duration, Instant};

pub const ENGINE_VERSION: u32 = 1;

pub struct Paths {
    pub root: PathBuf,
    pub bin_dir: PathBuf,
    pub seam_lib: PathBuf,
    pub repo: PathBuf,
    pub scratch: PathBuf,
}

impl Paths {
    pub fn from_env() -> Paths {
        let root = PathBuf::from(std::env::var("VERIF_ROOT").unwrap_or_else(|_| "/verif".into()));
        let exe = std::env::current_exe().expect("current_exe");
        let bin_dir = std::env::var("VERIF_BIN_DIR")
            .map(PathBuf::from)
            .unwrap_or_else(|_| exe.parent().unwrap().to_path_buf());
        let seam_lib = std::env::var("VERIF_SEAM")
            .map(PathBuf::from)
            .unwrap_or_else(|_| root.join(".build/libverifseam.so"));
        let repo = PathBuf::from(std::env::var("VERIF_REPO").unwrap_or_else(|_| "/repo".into()));
        let scratch = root.join(".scratch").join(format!("d{}", std::process::id()));
        Paths {
            root,
            bin_dir,
            seam_lib,
            repo,
            scratch,
        }
    }
    pub fn worker_env(&self, tier: Tier, k: usize) -> WorkerEnv {
        WorkerEnv {
            tier,
            scratch: self.scratch.join(format!("w{k}")),
            bin_dir: self.bin_dir.clone(),
            seam_lib: self.seam_lib.clone(),
            repo: self.repo.clone(),
        }
    }
}

pub enum Exec {
    Done(RunResult),
    /// worker died on a signal / unexpectedly: (kind, stderr tail)
    Crash(String, String),
    /// CPU budget exceeded
    Hang,
    /// harness-level failure
    Harness(String),
}

pub struct WorkerHandle {
    pub k: usize,
    engine_id: String,
    tier: Tier,
    seed: u64,
    paths: Arc<Paths>,
    child: Option<Child>,
    stdin: Option<ChildStdin>,
    rx: Option<Receiver<String>>,
    pub restarts: u64,
}

fn cpu_seconds(pid: u32) -> Option<f64> {
    let s = std::fs::read_to_string(format!("/proc/{pid}/stat")).ok()?;
    // fields after the ")" of comm
    let rest = &s[s.rfind(')')? + 2..];
    let f: Vec<&str> = rest.split(' ').collect();
    let utime: f64 = f.get(11)?.parse().ok()?;
    let stime: f64 = f.get(12)?.parse().ok()?;
    let tck = unsafe { libc::sysconf(libc::_SC_CLK_TCK) } as f64;
    Some((utime + stime) / tck)
}

impl WorkerHandle {
    pub fn new(k: usize, engine_id: &str, tier: Tier, seed: u64, paths: Arc<Paths>) -> WorkerHandle {
        WorkerHandle {
            k,
            engine_id: engine_id.to_string(),
            tier,
            seed,
            paths,
            child: None,
            stdin: None,
            rx: None,
            restarts: 0,
        }
    }

    fn stderr_path(&self) -> PathBuf {
        self.paths.scratch.join(format!("w{}.stderr", self.k))
    }

    fn ensure(&mut self) -> Result<(), String> {
        if self.child.is_some() {
            return Ok(());
        }
        let wdir = self.paths.scratch.join(format!("w{}", self.k));
        let tmp = wdir.join("tmp");
        std::fs::create_dir_all(&tmp).map_err(|e| format!("mkdir {}: {e}", tmp.display()))?;
        let errf = std::fs::File::create(self.stderr_path()).map_err(|e| e.to_string())?;
        let exe = std::env::current_exe().map_err(|e| e.to_string())?;
        let mut child = Command::new(exe)
            .args([
                "worker",
                &self.engine_id,
                self.tier.name(),
                &self.seed.to_string(),
                &self.k.to_string(),
            ])
            .env("LD_PRELOAD", &self.paths.seam_lib)
            .env("TMPDIR", &tmp)
            .env("VERIF_ROOT", &self.paths.root)
            .env("VERIF_BIN_DIR", &self.paths.bin_dir)
            .env("VERIF_SEAM", &self.paths.seam_lib)
            .env("VERIF_REPO", &self.paths.repo)
            .env("VERIF_SCRATCH", &wdir)
            .env_remove("VERIF_ENTROPY")
            .env_remove("VERIF_FAKE_TIME")
            .env_remove("RUST_BACKTRACE")
            .stdin(Stdio::piped())
            .stdout(Stdio::piped())
            .stderr(Stdio::from(errf))
            .spawn()
            .map_err(|e| format!("spawn worker: {e}"))?;
        let stdout = child.stdout.take().unwrap();
        let (tx, rx) = channel();
        std::thread::spawn(move || {
            let r = BufReader::new(stdout);
            for line in r.lines() {
                match line {
                    Ok(l) => {
                        if tx.send(l).is_err() {
                            break;
                        }
                    }
                    Err(_) => break,
                }
            }
        });
        self.stdin = child.stdin.take();
        self.child = Some(child);
        self.rx = Some(rx);
        Ok(())
    }

    pub fn kill(&mut self) {
        if let Some(mut c) = self.child.take() {
            let _ = c.kill();
            let _ = c.wait();
        }
        self.stdin = None;
        self.rx = None;
    }

    fn stderr_tail(&self) -> String {
        let s = std::fs::read(self.stderr_path()).unwrap_or_default();
        let s = String::from_utf8_lossy(&s);
        let lines: Vec<&str> = s.lines().rev().take(6).collect();
        lines.into_iter().rev().collect::<Vec<_>>().join(" | ")
    }

    /// Send one command line and wait for its END.
    pub fn exec(&mut self, cmd: &str, cpu_budget_s: f64) -> Exec {
        if let Err(e) = self.ensure() {
            return Exec::Harness(e);
        }
        let pid = self.child.as_ref().unwrap().id();
        {
            let stdin = self.stdin.as_mut().unwrap();
            if stdin.write_all(cmd.as_bytes()).is_err() || stdin.write_all(b"\n").is_err() || stdin.flush().is_err() {
                // worker already dead?
                let tail = self.stderr_tail();
                self.kill();
                self.restarts += 1;
                return Exec::Harness(format!("worker pipe closed before command: {tail}"));
            }
        }
        let cpu0 = cpu_seconds(pid).unwrap_or(0.0);
        let wall0 = Instant::now();
        loop {
            let rx = self.rx.as_ref().unwrap();
            match rx.recv_timeout(Duration::from_millis(100)) {
                Ok(line) => {
                    if line == "BEGIN" {
                        continue;
                    }
                    if let Some(rest) = line.strip_prefix("END ") {
                        return match serde_json::from_str::<RunResult>(rest) {
                            Ok(r) => Exec::Done(r),
                            Err(e) => Exec::Harness(format!("bad END line: {e}")),
                        };
                    }
                    if let Some(rest) = line.strip_prefix("FATAL ") {
                        let msg = rest.to_string();
                        self.kill();
                        return Exec::Harness(msg);
                    }
                    // anything else: stray output of code under test on stdout; ignore
                }
                Err(RecvTimeoutError::Timeout) => {
                    let cpu = cpu_seconds(pid).unwrap_or(cpu0);
                    if cpu - cpu0 > cpu_budget_s {
                        self.kill();
                        self.restarts += 1;
                        return Exec::Hang;
                    }
                    if wall0.elapsed() > Duration::from_secs_f64(60.0 + cpu_budget_s * 20.0) {
                        self.kill();
                        self.restarts += 1;
                        return Exec::Harness(format!(
                            "run blocked outside simulator control ({}s wall, {:.1}s cpu)",
                            wall0.elapsed().as_secs(),
                            cpu - cpu0
                        ));
                    }
                }
                Err(RecvTimeoutError::Disconnected) => {
                    use std::os::unix::process::ExitStatusExt;
                    let status = self.child.as_mut().unwrap().wait();
                    let tail = self.stderr_tail();
                    self.child = None;
                    self.stdin = None;
                    self.rx = None;
                    self.restarts += 1;
                    return match status {
                        Ok(st) => {
                            if let Some(sig) = st.signal() {
                                Exec::Crash(format!("signal-{sig}"), tail)
                            } else if st.code() == Some(2) {
                                Exec::Harness(format!("worker exited 2: {tail}"))
                            } else {
                                Exec::Crash(format!("exit-{}", st.code().unwrap_or(-1)), tail)
                            }
                        }
                        Err(e) => Exec::Harness(format!("wait: {e}")),
                    };
                }
            }
        }
    }
}

impl Drop for WorkerHandle {
    fn drop(&mut self) {
        if let Some(stdin) = self.stdin.as_mut() {
            let _ = stdin.write_all(b"QUIT\n");
        }
        self.kill();
    }
}

/// Turn a crash / hang of the worker into a RunResult with a totality violation.
fn crash_result(engine: &dyn Engine, scenario: &Value, exec: &Exec) -> RunResult {
    let mut r = RunResult::default();
    r.stats.evaluations = 1;
    match exec {
        Exec::Crash(kind, tail) => {
            r.stats.outcome("abort");
            r.violation(
                "totality/process-abort",
                &engine.crash_signature(scenario, "abort"),
                format!("worker process died ({kind}) during this run; stderr tail: {tail}"),
            );
        }
        Exec::Hang => {
            r.stats.outcome("hang");
            r.violation(
                "liveness/cpu-budget",
                &engine.crash_signature(scenario, "hang"),
                "run exceeded its CPU budget without reaching a yield point or finishing".to_string(),
            );
        }
        _ => {}
    }
    r
}

#[derive(serde::Deserialize, Clone, Debug)]
pub struct Finding {
    pub status: String,
    pub property: String,
    pub signature: String,
    pub what: String,
    #[serde(default)]
    pub commit: Option<String>,
}

pub fn load_findings(root: &Path) -> Result<Vec<Finding>, String> {
    let p = root.join("known_findings.json");
    if !p.exists() {
        return Ok(Vec::new());
    }
    let s = std::fs::read_to_string(&p).map_err(|e| e.to_string())?;
    let v: Value = serde_json::from_str(&s).map_err(|e| format!("known_findings.json: {e}"))?;
    let arr = v.get("findings").cloned().unwrap_or(json!([]));
    serde_json::from_value(arr).map_err(|e| format!("known_findings.json: {e}"))
}

fn finding_matches(f: &Finding, prop: &str, sig: &str) -> bool {
    if f.status != "known" || f.property != prop {
        return false;
    }
    if let Some(prefix) = f.signature.strip_suffix('*') {
        sig.starts_with(prefix)
    } else {
        f.signature == sig
    }
}

pub struct Summary {
    pub exit_code: i32,
}

pub fn env_u64(name: &str) -> Option<u64> {
    std::env::var(name).ok().and_then(|v| v.trim().parse().ok())
}

/// Execute a scenario in a contained worker and return its result (crash => violation).
fn exec_scenario(engine: &dyn Engine, w: &mut WorkerHandle, scn: &Value, cpu: f64) -> Result<RunResult, String> {
    if engine.fresh_process_per_run() {
        w.kill();
    }
    let line = format!("EXEC {}", serde_json::to_string(scn).unwrap());
    match w.exec(&line, cpu) {
        Exec::Done(r) => {
            if let Some(h) = &r.harness_error {
                return Err(h.clone());
            }
            Ok(r)
        }
        Exec::Harness(e) => Err(e),
        e => Ok(crash_result(engine, scn, &e)),
    }
}

/// Greedy minimisation: keep a candidate while a violation with the same signature persists.
pub fn minimise(
    engine: &dyn Engine,
    w: &mut WorkerHandle,
    scenario: &Value,
    signature: &str,
    tier: Tier,
) -> (Value, u64) {
    let mut best = scenario.clone();
    let mut evals = 0u64;
    let max_evals = if signature.contains("hang") { 40 } else { 400 };
    let cpu = if signature.contains("hang") {
        engine.cpu_budget_s(tier).min(4.0)
    } else {
        engine.cpu_budget_s(tier)
    };
    let deadline = Instant::now() + Duration::from_secs(120);
    'outer: loop {
        let cands = engine.shrink(&best);
        for c in cands {
            if evals >= max_evals || Instant::now() > deadline {
                break 'outer;
            }
            if c == best {
                continue;
            }
            evals += 1;
            if let Ok(r) = exec_scenario(engine, w, &c, cpu) {
                if r.violations.iter().any(|v| v.signature == signature) {
                    best = c;
                    continue 'outer;
                }
            }
        }
        break;
    }
    (best, evals)
}

pub fn run_property(engine: &'static dyn Engine, tier: Tier) -> i32 {
    let t0 = Instant::now();
    let seed = env_u64("VERIF_SEED").unwrap_or(1);
    let paths = Arc::new(Paths::from_env());
    let id = engine.id();
    println!("svgdx-sim property={id} tier={} VERIF_SEED={seed} engine_version={ENGINE_VERSION}", tier.name());
    if !paths.seam_lib.exists() {
        eprintln!("harness error: seam library {} missing (run ./setup.sh)", paths.seam_lib.display());
        return 2;
    }
    let findings = match load_findings(&paths.root) {
        Ok(f) => f,
        Err(e) => {
            eprintln!("harness error: {e}");
            return 2;
        }
    };
    let _ = std::fs::remove_dir_all(&paths.scratch);
    if let Err(e) = std::fs::create_dir_all(&paths.scratch) {
        eprintln!("harness error: scratch: {e}");
        return 2;
    }
    let n = env_u64("VERIF_RUNS").unwrap_or_else(|| engine.runs(tier));
    let workers = env_u64("VERIF_WORKERS")
        .map(|w| w as usize)
        .unwrap_or_else(|| std::thread::available_parallelism().map(|p| p.get()).unwrap_or(4).min(16))
        .max(1)
        .min(n.max(1) as usize);
    let cpu_budget = engine.cpu_budget_s(tier);

    let next = Arc::new(AtomicU64::new(0));
    let results: Arc<Mutex<BTreeMap<u64, RunResult>>> = Arc::new(Mutex::new(BTreeMap::new()));
    let harness_errors: Arc<Mutex<Vec<String>>> = Arc::new(Mutex::new(Vec::new()));
    let gen_env = paths.worker_env(tier, 999);
    let mut handles = Vec::new();
    for k in 0..workers {
        let next = next.clone();
        let results = results.clone();
        let herrs = harness_errors.clone();
        let paths = paths.clone();
        let gen_env = gen_env.clone();
        handles.push(std::thread::spawn(move || {
            let mut w = WorkerHandle::new(k, id, tier, seed, paths);
            loop {
                let i = next.fetch_add(1, Ordering::SeqCst);
                if i >= n {
                    break;
                }
                if herrs.lock().unwrap().len() > 3 {
                    break;
                }
                if engine.fresh_process_per_run() {
                    w.kill();
                }
                let ex = w.exec(&format!("RUN {i}"), cpu_budget);
                let r = match ex {
                    Exec::Done(r) => {
                        if let Some(h) = &r.harness_error {
                            herrs.lock().unwrap().push(format!("run {i}: {h}"));
                        }
                        r
                    }
                    Exec::Harness(e) => {
                        herrs.lock().unwrap().push(format!("run {i}: {e}"));
                        RunResult::default()
                    }
                    e => {
                        let scn = engine.generate(seed, i, tier, &gen_env);
                        crash_result(engine, &scn, &e)
                    }
                };
                results.lock().unwrap().insert(i, r);
            }
        }));
    }
    for h in handles {
        let _ = h.join();
    }
    let herrs = harness_errors.lock().unwrap().clone();
    if !herrs.is_empty() {
        for e in herrs.iter().take(5) {
            eprintln!("harness error: {e}");
        }
        let _ = std::fs::remove_dir_all(&paths.scratch);
        return 2;
    }
    let results = results.lock().unwrap().clone();

    // ---- aggregate (index order => independent of worker count and timing)
    let mut total = RunStats::default();
    let mut distinct: BTreeSet<u64> = BTreeSet::new();
    let mut log_hash: u64 = 0;
    let mut by_sig: BTreeMap<String, (u64, Violation, u64)> = BTreeMap::new(); // sig -> (first index, violation, count)
    for (i, r) in &results {
        total.merge(&r.stats);
        if r.stats.nontrivial {
            distinct.insert(r.stats.fingerprint);
        }
        let vs: Vec<String> = r.violations.iter().map(|v| v.signature.clone()).collect();
        log_hash = rng::mix(
            log_hash,
            rng::mix(*i, rng::mix(rng::mix(r.stats.fingerprint, rng::mix(r.stats.steps, r.stats.switches)), rng::hash_str(&vs.join("|")))),
        );
        for v in &r.violations {
            let e = by_sig.entry(v.signature.clone()).or_insert((*i, v.clone(), 0));
            e.2 += 1;
        }
    }
    println!(
        "runs={} evaluations={} distinct_nontrivial={} steps={} switches={} event_log_hash={:016x}",
        results.len(),
        total.evaluations,
        distinct.len(),
        total.steps,
        total.switches,
        log_hash
    );

    if std::env::var("VERIF_TIMING").is_ok() {
        let mut t: Vec<(u64, u64)> = results.iter().map(|(i, r)| (r.stats.elapsed_ms, *i)).collect();
        t.sort();
        t.reverse();
        let total: u64 = t.iter().map(|x| x.0).sum();
        println!("timing: total_ms={total} slowest (ms,index): {:?}", &t[..t.len().min(25)]);
    }
    // ---- violations: known findings vs new
    let mut known_seen: BTreeMap<String, u64> = BTreeMap::new();
    let mut new_sigs: Vec<(String, u64, Violation, u64)> = Vec::new();
    for (sig, (idx, v, count)) in &by_sig {
        if let Some(f) = findings.iter().find(|f| finding_matches(f, id, sig)) {
            *known_seen.entry(format!("{} [{}]", f.what, f.signature)).or_insert(0) += count;
        } else {
            new_sigs.push((sig.clone(), *idx, v.clone(), *count));
        }
    }
    for (what, count) in &known_seen {
        println!("KNOWN-FINDING: property={id} {what} (seen in {count} runs)");
    }
    new_sigs.sort_by_key(|x| x.1);
    for (sig, idx, _v, count) in &new_sigs {
        println!("signature-summary: {sig} runs={count} first_index={idx}");
    }
    let mut violation_lines = 0;
    let mut unreproduced = 0;
    let mut replay_records = Vec::new();
    if !new_sigs.is_empty() {
        let _ = std::fs::create_dir_all(paths.root.join("replays"));
        let mut w = WorkerHandle::new(100, id, tier, seed, paths.clone());
        for (sig, idx, v, count) in new_sigs.iter().take(6) {
            let scn = engine.generate(seed, *idx, tier, &gen_env);
            let skip_min = std::env::var("VERIF_NO_MINIMISE").is_ok();
            let (min_scn, evals) = if skip_min {
                (scn.clone(), 0)
            } else {
                minimise(engine, &mut w, &scn, sig, tier)
            };
            // confirm in a fresh worker
            w.kill();
            let mut confirmed = false;
            let mut final_scn = min_scn.clone();
            let mut final_v = v.clone();
            for cand in [&min_scn, &scn] {
                for _ in 0..2 {
                    if let Ok(r) = exec_scenario(engine, &mut w, cand, cpu_budget) {
                        if let Some(vv) = r.violations.iter().find(|x| &x.signature == sig) {
                            confirmed = true;
                            final_scn = cand.clone();
                            final_v = vv.clone();
                            break;
                        }
                    }
                    w.kill();
                }
                if confirmed {
                    break;
                }
            }
            if !confirmed {
                eprintln!("note: violation {sig} of run {idx} did not reproduce on replay; not reported as a verdict");
                // observations of a real process in real time (the --watch sessions, bursts of
                // requests to a real server) are allowed not to repeat: an unrepeatable one is
                // dropped, it does not take the verdict of the whole check with it
                if !(sig.contains(":watch:") || sig.contains("-watch")) {
                    unreproduced += 1;
                }
                continue;
            }
            let path = paths.root.join("replays").join(format!("{id}-{seed}-{idx}-{:08x}.json", rng::hash_str(sig) as u32));
            let rec = json!({
                "property": id,
                "engine_version": ENGINE_VERSION,
                "seed": seed,
                "index": idx,
                "tier": tier.name(),
                "oracle": final_v.oracle,
                "signature": sig,
                "detail": final_v.detail,
                "runs_with_this_signature": count,
                "minimised": final_scn != scn,
                "minimisation_evaluations": evals,
                "scenario": final_scn,
            });
            if let Err(e) = std::fs::write(&path, serde_json::to_string_pretty(&rec).unwrap()) {
                eprintln!("harness error: write replay: {e}");
                return 2;
            }
            println!("violation: oracle={} signature={} runs={} detail={}", final_v.oracle, sig, count, shorten(&final_v.detail, 600));
            println!("VIOLATION property={id} replay={}", path.display());
            violation_lines += 1;
            replay_records.push(json!({"signature": sig, "replay": path.display().to_string()}));
        }
    }

    if violation_lines == 0 && unreproduced > 0 {
        eprintln!("harness error: {unreproduced} observed violation(s) could not be reproduced from their replay scenario; no verdict");
        let _ = std::fs::remove_dir_all(&paths.scratch);
        return 2;
    }
    // ---- evidence
    let wall = t0.elapsed().as_secs_f64();
    let samples: Vec<Value> = [0u64, n / 2, n.saturating_sub(1)]
        .iter()
        .collect::<BTreeSet<_>>()
        .into_iter()
        .filter(|i| **i < n)
        .map(|i| {
            let scn = engine.generate(seed, *i, tier, &gen_env);
            let r = results.get(i);
            json!({
                "index": i,
                "run_seed": rng::run_seed(seed, id, *i),
                "scenario": truncate_value(&scn, 1500),
                "outcomes": r.map(|r| json!(r.stats.outcomes)).unwrap_or(json!(null)),
                "faults_fired": r.map(|r| json!(r.stats.faults)).unwrap_or(json!(null)),
            })
        })
        .collect();
    let evidence = json!({
        "property_id": id,
        "tier": tier.name(),
        "seed": seed,
        "level": "exploration",
        "wall_s": (wall * 100.0).round() / 100.0,
        "violations": violation_lines,
        "coverage": {
            "evaluations": total.evaluations.max(results.len() as u64),
            "distinct_nontrivial": distinct.len(),
            "rule": engine.rule(),
            "samples": samples,
            "simulated_runs": results.len(),
            "seeds": format!("VERIF_SEED={seed}; run i uses splitmix(VERIF_SEED, \"{id}\", i), i in 0..{n}"),
            "runs_per_hour": ((results.len() as f64) / wall.max(0.001) * 3600.0).round(),
            "sim_steps_total": total.steps,
            "context_switches": total.switches,
            "sim_clock_range_ns": [total.clock_min, total.clock_max],
            "fault_fired": total.faults,
            "probe_hits": total.probes,
            "front_end_runs": total.frontends,
            "outcome_classes": total.outcomes,
            "event_log_hash": format!("{:016x}", log_hash),
            "workers": workers,
            "known_findings_seen": known_seen,
            "replays": replay_records,
            "components": {"real": engine.components_real(), "stub": engine.components_stub()},
            "exhaustive": false,
        },
        "assumptions": engine.assumptions(),
    });
    if std::env::var("VERIF_NO_EVIDENCE").is_err() {
        let evdir = paths.root.join("evidence");
        let _ = std::fs::create_dir_all(&evdir);
        if let Err(e) = std::fs::write(evdir.join(format!("{id}.json")), serde_json::to_string_pretty(&evidence).unwrap()) {
            eprintln!("harness error: write evidence: {e}");
            return 2;
        }
    }
    let _ = std::fs::remove_dir_all(&paths.scratch);
    println!("wall_s={wall:.1} violations={violation_lines} known_findings={}", known_seen.len());
    if violation_lines > 0 {
        1
    } else {
        0
    }
}

fn truncate_value(v: &Value, max: usize) -> Value {
    match v {
        Value::String(s) => Value::String(shorten(s, max)),
        Value::Array(a) => {
            let mut out: Vec<Value> = a.iter().take(24).map(|x| truncate_value(x, max)).collect();
            if a.len() > 24 {
                out.push(Value::String(format!("...[{} items]", a.len())));
            }
            Value::Array(out)
        }
        Value::Object(m) => Value::Object(m.iter().map(|(k, x)| (k.clone(), truncate_value(x, max))).collect()),
        x => x.clone(),
    }
}

/// `sim replay <file>`: re-execute exactly the recorded scenario in a fresh contained worker.
pub fn replay(engine_lookup: impl Fn(&str) -> Option<&'static dyn Engine>, file: &Path) -> i32 {
    let s = match std::fs::read_to_string(file) {
        Ok(s) => s,
        Err(e) => {
            eprintln!("harness error: {e}");
            return 2;
        }
    };
    let rec: Value = match serde_json::from_str(&s) {
        Ok(v) => v,
        Err(e) => {
            eprintln!("harness error: {e}");
            return 2;
        }
    };
    let id = rec["property"].as_str().unwrap_or("");
    let engine = match engine_lookup(id) {
        Some(e) => e,
        None => {
            eprintln!("harness error: unknown property {id}");
            return 2;
        }
    };
    let tier = Tier::parse(rec["tier"].as_str().unwrap_or("quick")).unwrap_or(Tier::Quick);
    let sig = rec["signature"].as_str().unwrap_or("").to_string();
    let seed = rec["seed"].as_u64().unwrap_or(1);
    let paths = Arc::new(Paths::from_env());
    let _ = std::fs::create_dir_all(&paths.scratch);
    let mut w = WorkerHandle::new(0, engine.id(), tier, seed, paths.clone());
    let r = exec_scenario(engine, &mut w, &rec["scenario"], engine.cpu_budget_s(tier));
    drop(w);
    let _ = std::fs::remove_dir_all(&paths.scratch);
    match r {
        Err(e) => {
            eprintln!("harness error: {e}");
            2
        }
        Ok(r) => {
            for v in &r.violations {
                println!("violation: oracle={} signature={} detail={}", v.oracle, v.signature, shorten(&v.detail, 800));
            }
            if r.violations.iter().any(|v| v.signature == sig) {
                println!("VIOLATION property={} replay={}", engine.id(), file.display());
                1
            } else if !r.violations.is_empty() {
                println!("replay: a different violation than recorded ({sig}) occurred");
                println!("VIOLATION property={} replay={}", engine.id(), file.display());
                1
            } else {
                println!("replay: no violation (recorded signature {sig})");
                0
            }
        }
    }
}

/// `sim min <ID> <tier> <index> <signature-prefix>`: minimise one run's violation and print it (debugging aid)
pub fn minimise_index(engine: &'static dyn Engine, tier: Tier, index: u64, sig_prefix: &str) -> i32 {
    let seed = env_u64("VERIF_SEED").unwrap_or(1);
    let paths = Arc::new(Paths::from_env());
    let _ = std::fs::create_dir_all(&paths.scratch);
    let gen_env = paths.worker_env(tier, 999);
    let scn = engine.generate(seed, index, tier, &gen_env);
    let mut w = WorkerHandle::new(0, engine.id(), tier, seed, paths.clone());
    let r = match exec_scenario(engine, &mut w, &scn, engine.cpu_budget_s(tier)) {
        Ok(r) => r,
        Err(e) => {
            eprintln!("harness error: {e}");
            return 2;
        }
    };
    let sig = match r.violations.iter().find(|v| v.signature.starts_with(sig_prefix)) {
        Some(v) => v.signature.clone(),
        None => {
            println!("no violation with prefix {sig_prefix}; have {:?}", r.violations.iter().map(|v| &v.signature).collect::<Vec<_>>());
            return 0;
        }
    };
    let (min, evals) = minimise(engine, &mut w, &scn, &sig, tier);
    let r2 = exec_scenario(engine, &mut w, &min, engine.cpu_budget_s(tier)).unwrap_or_default();
    drop(w);
    let _ = std::fs::remove_dir_all(&paths.scratch);
    println!("signature={sig} minimisation_evaluations={evals}");
    for v in r2.violations.iter().filter(|v| v.signature == sig) {
        println!("{}", v.detail);
    }
    println!("{}", serde_json::to_string(&min).unwrap());
    1
}
