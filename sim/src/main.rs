//! svgdx deterministic simulator with fault injection (see /verif/DESIGN.md).
#![allow(dead_code)]

mod core;
mod docgen;
mod driver;
mod engines;
mod frontends;
mod hostile;
mod rng;
mod seam;
mod simio;
mod turnstile;
mod xmltree;

use crate::core::{Engine, Tier, WorkerEnv};
use std::io::{BufRead, Write};
use std::path::PathBuf;

fn worker_env(tier: Tier) -> WorkerEnv {
    let p = driver::Paths::from_env();
    let scratch = std::env::var("VERIF_SCRATCH")
        .map(PathBuf::from)
        .unwrap_or_else(|_| p.scratch.join("w0"));
    WorkerEnv {
        tier,
        scratch,
        bin_dir: p.bin_dir,
        seam_lib: p.seam_lib,
        repo: p.repo,
    }
}

fn worker_main(engine: &'static dyn Engine, tier: Tier, seed: u64) -> i32 {
    let env = worker_env(tier);
    let stdout = std::io::stdout();
    if let Err(e) = seam::self_test() {
        let mut o = stdout.lock();
        let _ = writeln!(o, "FATAL seam self-test failed: {e}");
        return 2;
    }
    seam::disarm();
    let _ = std::fs::create_dir_all(&env.scratch);
    frontends::install_panic_hook();
    let stdin = std::io::stdin();
    for line in stdin.lock().lines() {
        let line = match line {
            Ok(l) => l,
            Err(_) => break,
        };
        let scn = if let Some(rest) = line.strip_prefix("RUN ") {
            let i: u64 = match rest.trim().parse() {
                Ok(i) => i,
                Err(_) => continue,
            };
            engine.generate(seed, i, tier, &env)
        } else if let Some(rest) = line.strip_prefix("EXEC ") {
            match serde_json::from_str(rest) {
                Ok(v) => v,
                Err(e) => {
                    let mut o = stdout.lock();
                    let _ = writeln!(o, "FATAL bad EXEC json: {e}");
                    return 2;
                }
            }
        } else if line.trim() == "QUIT" {
            break;
        } else {
            continue;
        };
        {
            let mut o = stdout.lock();
            let _ = writeln!(o, "BEGIN");
            let _ = o.flush();
        }
        let t0 = std::time::Instant::now();
        let mut r = engine.execute(&scn, &env);
        r.stats.elapsed_ms = t0.elapsed().as_millis() as u64;
        seam::disarm();
        let mut o = stdout.lock();
        let _ = writeln!(o, "END {}", serde_json::to_string(&r).unwrap());
        let _ = o.flush();
    }
    0
}

fn usage() -> i32 {
    eprintln!("usage: sim run <ID> <quick|thorough> | sim replay <file> | sim worker <ID> <tier> <seed> <k> | sim gen <ID> <tier> <index> | sim list");
    2
}

fn main() {
    let args: Vec<String> = std::env::args().collect();
    let code = match args.get(1).map(|s| s.as_str()) {
        Some("run") if args.len() >= 4 => match (engines::lookup(&args[2]), Tier::parse(&args[3])) {
            (Some(e), Some(t)) => driver::run_property(e, t),
            _ => usage(),
        },
        Some("worker") if args.len() >= 5 => match (engines::lookup(&args[2]), Tier::parse(&args[3])) {
            (Some(e), Some(t)) => worker_main(e, t, args[4].parse().unwrap_or(1)),
            _ => usage(),
        },
        Some("replay") if args.len() >= 3 => driver::replay(engines::lookup, &PathBuf::from(&args[2])),
        Some("gen") if args.len() >= 5 => match (engines::lookup(&args[2]), Tier::parse(&args[3])) {
            (Some(e), Some(t)) => {
                let seed = driver::env_u64("VERIF_SEED").unwrap_or(1);
                let env = worker_env(t);
                let scn = e.generate(seed, args[4].parse().unwrap_or(0), t, &env);
                println!("{}", serde_json::to_string_pretty(&scn).unwrap());
                0
            }
            _ => usage(),
        },
        Some("exec") if args.len() >= 5 => match (engines::lookup(&args[2]), Tier::parse(&args[3])) {
            // debugging aid: generate run <index> and execute it in this process (no containment)
            (Some(e), Some(t)) => {
                let seed = driver::env_u64("VERIF_SEED").unwrap_or(1);
                let env = worker_env(t);
                let _ = std::fs::create_dir_all(&env.scratch);
                frontends::install_panic_hook();
                let scn = e.generate(seed, args[4].parse().unwrap_or(0), t, &env);
                let r = e.execute(&scn, &env);
                println!("{}", serde_json::to_string_pretty(&r).unwrap());
                0
            }
            _ => usage(),
        },
        Some("min") if args.len() >= 6 => match (engines::lookup(&args[2]), Tier::parse(&args[3])) {
            (Some(e), Some(t)) => driver::minimise_index(e, t, args[4].parse().unwrap_or(0), &args[5]),
            _ => usage(),
        },
        Some("list") => {
            for e in engines::all() {
                println!("{}", e.id());
            }
            0
        }
        _ => usage(),
    };
    std::process::exit(code);
}
