#!/bin/bash
# Prove determinism of the simulator itself: for every engine, many VERIF_SEED values,
# each executed at worker counts 1, 5 and 16 (and twice at 16); the merged event-log
# hash (run index x fingerprint x violation signatures) must be identical.
# usage: tools/selftest_determinism.sh [seeds=12] [runs=120] [engines...]
set -u
ROOT="$(cd "$(dirname "${BASH_SOURCE[0]}")/.." && pwd)"
cd "$ROOT"
./build.sh || exit 2
SEEDS="${1:-12}"; RUNS="${2:-120}"; shift 2 2>/dev/null
ENGINES="${*:-C01 C06 C07 C10 C14 C15 C17}"
export VERIF_ROOT="$ROOT" VERIF_BIN_DIR="$ROOT/.build/target/release" VERIF_SEAM="$ROOT/.build/libverifseam.so"
export VERIF_NO_EVIDENCE=1 VERIF_NO_MINIMISE=1 VERIF_RUNS="$RUNS"
fail=0; total=0
for e in $ENGINES; do
  for s in $(seq 1 "$SEEDS"); do
    ref=""
    for w in 1 5 16 16; do
      h=$(VERIF_SEED=$((s * 7919 + 3)) VERIF_WORKERS=$w "$VERIF_BIN_DIR/sim" run "$e" quick 2>/dev/null | grep -o 'event_log_hash=[0-9a-f]*')
      total=$((total + 1))
      if [ -z "$h" ]; then echo "NO-HASH engine=$e seed=$s workers=$w"; fail=$((fail + 1)); continue; fi
      if [ -z "$ref" ]; then ref="$h"; elif [ "$h" != "$ref" ]; then echo "DIVERGED engine=$e seed=$s workers=$w $h != $ref"; fail=$((fail + 1)); fi
    done
  done
  echo "engine=$e seeds=$SEEDS runs_per_seed=$RUNS done (failures so far: $fail)"
done
echo "determinism selftest: $total executions, $fail divergences"
[ "$fail" = 0 ]
