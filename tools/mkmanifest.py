#!/usr/bin/env python3
"""Regenerate /verif/MANIFEST.json from the tables below and validate it."""
import json, subprocess, sys, os

ROOT = os.path.dirname(os.path.dirname(os.path.abspath(__file__)))

TECH = "deterministic simulation with fault injection"

CLAIMED = {
    "C01": dict(
        text="Seeded simulation of one hostile / corrupted / fuzzed document (44 shape generators incl. nesting knobs up to 2e5, non-UTF-8 bytes at 25 syntactic positions, corrupted real documents, dictionary attribute fuzz and two grids: one svgdx attribute x the whole 230-value dictionary, every path command x 15 magnitudes; operator/function pair grid over 40 special operands; lazy variable doubling) under a configuration with limits <= defaults and a stream fault plan (chunking, EINTR, short writes, Ok(0), hard read/write errors at drawn offsets), driven through transform_str, transform_stream over fault-injecting BufRead/Write, cli::run in-process, the axum Router in-process, the real svgdx child process (also with stdout or stderr on a full device) and a real svgdx-server child (each request also in 20 wire styles: Content-Types incl. none and non-ASCII parameters, body whole or in pieces), on 2 MiB / 8 MiB simulated threads. Oracles: every front-end returns Ok or Err (exit 0/1/2 with a message, HTTP 2xx/4xx); no panic, no process abort (workers are contained and restarted by the driver), no hang (3e6 element-evaluation step budget, 12 s CPU budget); hard stream errors surface as Err with accepted bytes a prefix of the fault-free output; transparent faults leave the result byte-identical.",
        note="'Every byte sequence' is sampled, not enumerated. Polynomial (quadratic/cubic) cost in one attribute's length or a use-chain's length is measured in DESIGN.md but not asserted: the CPU budget is a net for non-termination and exponential blow-up, and generators cap such shapes.",
        technique=TECH + ": fault-injecting BufRead/Write seams, stream corruption, hostile workload shapes, process-level abort/hang containment with seeded replay, step-budget bounded liveness",
        design="DESIGN.md §4 C01",
    ),
    "C06": dict(
        text="Seeded simulation of incarnation histories: the same (document, configuration) is executed on fresh threads whose OS entropy (every RandomState hash seed, via an interposed getrandom) and wall clock (interposed clock_gettime) are re-armed from the run seed, repeated on one thread, interleaved by the turnstile with a neighbour thread under a far configuration, in real svgdx child processes with their own entropy, clock, environment and cwd (stdout, stdin, over a longer existing file, --watch started over a newer output), and by a real svgdx-server under simultaneous requests and in 20 wire styles; all outputs, the library's error Display and the command's message (between command runs fed the same way) must be byte-equal, up to the one permitted token - the local-style id, found by its use, not its format. Exploration: evidence, not proof.",
        note="Trusts that the libc interposer reaches every RandomState and SystemTime (self-tested in every worker). CLOCK_MONOTONIC and ASLR are not simulated. Requests to the real server and the --watch session are real-time observations of a real process (its scheduler is not simulated).",
        technique=TECH + ": entropy/clock seam (LD_PRELOAD getrandom + clock_gettime), seeded incarnation histories, byte-equality oracle",
        design="DESIGN.md §4 C06",
    ),
    "C07": dict(
        text="Seeded simulation of a process hosting several clients: 1..4 simulated threads (real threads, but a seeded turnstile - sequential / uniform / sticky / PCT-like - decides who runs at every stream I/O call, every element evaluation via the verif hook, and every request boundary) issue 1..4 requests each through transform_str, transform_stream over fault-injecting streams, cli::run file->file on private directories, the axum Router, the real svgdx child, the real svgdx-server child (single requests in 20 wire styles, bursts of 6-12 simultaneous requests) and, outside the turnstile, the command in --watch mode over several saves of one file. A reference model - the solo golden result of each distinct (document, configuration), computed forward and in reverse before any concurrency - judges every response: byte equality up to the local-style id / equal error Display between the library functions, failure <-> non-zero exit / HTTP 400, in local-style scenarios every reference run repeated by a fresh process with the same per-request clock, output file exactly the golden bytes (no stale tail), failing transforms and injected faults (hard stream errors, input-is-directory, missing input/output directory/TMPDIR, /dev/full) leave a sentinel output file byte-for-byte untouched, and every same-file spelling (same, ./, ../, symlink, hard link, symlinked input, the input's directory, standard input redirected from the output file) is refused with the input intact. Bounded liveness: all requests finish within the step budget.",
        note="Today svgdx has no shared state, so interleavings cannot matter on the current tree; the check exists to catch a future cache / static / thread_local. Inside the real server and the --watch process the simulator does not own the schedule: those observations are real-time, unrepeatable ones are dropped and never void the verdict. Two known findings (empty rendering answered 400 by the server; bodies over 2 MiB answered 413) are reported under their own signatures.",
        technique=TECH + ": seeded turnstile scheduler over real threads with yield points at stream I/O and element evaluation, fault-injecting streams and file-system faults, history check against a solo reference execution",
        design="DESIGN.md §4 C07",
    ),
    "C10": dict(
        text="The evaluation schedule of svgdx's retry work-list is the sibling order of the document. Each generated reference DAG (54 relative kinds - incl. blocks, '^' users whose predecessor waits, content of never-rendered containers - over 10 absolute kinds, plus motifs: a clipPath as a sibling, a reuse of a waiting group, inert siblings of other vocabularies) is executed under every sibling order - exhaustively all n! for n <= 5, identity + reversal + 62 seeded orders for n in 6..8 - and every element's geometry and the root extent must equal those under the forward-reference-free order; now and then the orders are successive saves of one file watched by one svgdx --watch process; unsatisfiable graphs (unknown id, 2-/3-cycles, self reference, target without bounding box, clip to an unknown id) must fail under every order. Exploration over DAG shapes; exhaustive over schedules for small n.",
        note="Generated nodes are self-contained (a '^' only names an element of its own node; no random functions). Numeric tolerance 2e-3. The root extent is compared between orders, not against a reference of its own (C08 is not applicable). The verif hook only counts retries (non-triviality); the verdict is on output bytes.",
        technique=TECH + ": schedule = sibling order of the retry work-list, fault = unresolved forward reference; all n! schedules for n<=5, seeded sampling above; geometry-equality oracle against the fault-free schedule",
        design="DESIGN.md §4 C10",
    ),
    "C14": dict(
        text="PARTIAL (clauses b and c only). Exactly-once: the hidden state is the position of the document PRNG; randint(0,999999) beacons / random() are placed at 18 attribute sites of the element pipeline (one at the start of a 66 KB value), inside loops (fixed or random count), ifs, groups, reuse attributes, group- and leaf-template bodies, as identical blocks in one value, as function arguments, in group attributes read lazily by children, with API seeds and <config seed> reseeding; every printed value must equal what svgdx itself prints for the same ordered draws in a flat calibration document (one plain element per occurrence per rendering, same reseeds) - no PRNG algorithm is assumed; on that stream: same values under any non-seed configuration, randint(n,n) advances, <config seed=S> restarts as a document with seed S. Fail-on-malformed: 16 malformed-expression kinds (incl. untaken branches, short circuits, cycles among group locals) x 25 sites (loop control, 70 KB values) x 7 neighbourhoods (alone / beside / inside / after elements that need a retry, before / after a forward chain of 110-170 elements) must fail the transform - the retry protocol must not turn an error into success. Clause (a), arithmetic semantics of a pure evaluator, is NOT decided by this technique.",
        note="At most one random occurrence per element (attribute evaluation order inside one element is not constrained). <specs> content is not a rendered element. The hook's draw counter is diagnostic only (rolled-back draws are legitimate).",
        technique=TECH + ": PRNG stream position as hidden state, reference-stream conformance oracle; malformed expressions as faults placed around the retry protocol (partial: arithmetic semantics not covered)",
        design="DESIGN.md §4 C14",
    ),
    "C15": dict(
        text="Scoped programs (g / reuse-of-specs-template / loop / if / var with parallel assignment / probes) are rendered twice: 'back' (anchors first: fault-free) and 'fwd' (anchors last: forward references inside scoped constructs fail between scope push and pop and are re-evaluated by the retry work-list). Probe outputs of both variants must equal an executable lexical-scoping reference model. Seven fixed-form add-ons with their own expected texts (reuse of a reuse, reuse of a rendered leaf, a waiting empty reuse, hyphenated names, empty values, containers as scopes, one value text read in two scopes), fragments without a root element, and now and then a pass through a real svgdx-server whose worker threads have served requests defining every probed name. Seeded exploration over program shapes and fault placements.",
        note="Only g and reuse introduce scopes (loop/if bodies run in the enclosing scope, documented behaviour). Programs whose stored values would contain '$' leave the model and are skipped (counted). Two genuine, unrepaired design-level defects are listed in known_findings.json under their own program classes.",
        technique=TECH + ": fault = forward reference inside a scoped construct (forces re-evaluation), fault-free vs faulted rendering of one program, executable reference model of lexical scoping as oracle",
        design="DESIGN.md §4 C15",
    ),
    "C17": dict(
        text="Parametric documents with limit L (API and <config>): nesting depth L-1..L+2, flat amplification (L..4L siblings of 19 element kinds at constant depth), loops of every kind (count/while/until/for/nested/retried/self-mutating) with L-1..L+3 passes, variable values of length L-1..L+5 (also around a limit of 2^24+1), reuse recursion (self, fan-out 2, mutual, bounded), <config loop-limit> inside a running loop, and documents which are not loops (forward chains, clip-path chains) and must be accepted; in a quarter of the runs the svgdx command repeats the verdict with user-style arguments (also with limit-like environment variables set to other values). Two-sided verdict from a reference counter model; on acceptance the number of rendered elements is checked (never truncated). The depth counter and retry protocol are the state under watch (hook probes).",
        note="Nesting depth = XML element levels, root = 1 (17 wrapper kinds). For wrapper/leaf kinds whose internal accounting may add a constant, acceptance is asserted only at depth <= L-2; pure g chains are asserted exactly. var-limit not being applied to variables bound by group attributes / for loops is a known finding.",
        technique=TECH + ": limit counters and the retry protocol as the simulated state machine; parametric boundary workloads; reference counter model as oracle",
        design="DESIGN.md §4 C17",
    ),
}

NOT_APPLICABLE = {
    "C02": "pure function of one input: well-formedness needs an independent XML parser over generated inputs; nothing to schedule, fault or crash",
    "C03": "pure function of one input: infoset comparison of input and output; no schedule, clock, fault or history in it",
    "C04": "pure function of one input: grammar-based generation of plain SVG; no nondeterminism or fault to simulate",
    "C05": "T(T(x)) = T(x) is a two-call composition of a pure function, not a history with state",
    "C08": "pure geometry against an independent bounding-box model (its retry-accumulation slice is only logged under C10)",
    "C09": "pure geometry against a reference layout model",
    "C11": "pure: bounded-exhaustive enumeration of equivalent constraint spellings",
    "C12": "pure geometric inequality over one input",
    "C13": "pure geometry over one input",
    "C16": "translation validation between a loop and its unrolling; pure (loop x retry interaction is covered under C15/C17)",
    "C18": "translation validation between reuse and manual inlining; pure (template-before/after-use placement is exercised as a schedule under C10)",
    "C19": "pure string/geometry function of one input",
    "C20": "pure closure check over the class vocabulary of one output (its ordering nondeterminism is C06)",
}

PENDING = {
}

def main():
    checks = []
    for pid in sorted(CLAIMED):
        c = CLAIMED[pid]
        checks.append({
            "property_id": pid,
            "quick_cmd": f"./check {pid} quick",
            "thorough_cmd": f"./check {pid} thorough",
            "evidence_file": f"/verif/evidence/{pid}.json",
            "replay_cmd_template": "./check --replay {path}",
            "engine": "svgdx-sim",
            "level_claimed": {"category": "exploration", "text": c["text"], "design_ref": c["design"]},
            "level_note": c["note"],
            "technique": c["technique"],
        })
    na = [{"property_id": k, "reason": v} for k, v in sorted({**NOT_APPLICABLE, **PENDING}.items())]
    hooks = subprocess.run(["git", "-C", "/repo", "log", "--format=%H %s", "--grep=^verif hooks"],
                           capture_output=True, text=True).stdout.strip().splitlines()
    m = {
        "version": 1,
        "setup_cmd": "./setup.sh",
        "hooks": {
            "guard": "cargo feature `verif` (off by default)",
            "enable": "the simulator crate /verif/sim depends on svgdx = { path = \"/repo\", features = [\"verif\"] } and is rebuilt by ./build.sh (called by every ./check) from /repo's current working tree",
            "baseline_off_cmd": "cd /repo && cargo test --workspace --no-fail-fast --offline",
            "source_commits": [h.split()[0] for h in reversed(hooks)],
            "add_only": True,
        },
        "engines": [{
            "name": "svgdx-sim",
            "path": "/verif/sim",
            "serves_properties": sorted(CLAIMED),
            "kind_free_text": "deterministic simulator: driver -> contained worker processes -> simulated threads under a seeded turnstile scheduler; fault-injecting BufRead/Write streams; interposed OS entropy and wall clock (/verif/seam); explicit replay files; known-findings list",
        }],
        "checks": checks,
        "not_applicable": na,
        "notes": "One technique family only: deterministic simulation with fault injection. VERIF_SEED (default 1) decides every run; exit 2 = harness error, never a verdict. See DESIGN.md.",
    }
    out = os.path.join(ROOT, "MANIFEST.json")
    json.dump(m, open(out, "w"), indent=1)
    try:
        import jsonschema
        jsonschema.validate(m, json.load(open("/root/.vp/MANIFEST.schema.json")))
        props = [json.loads(l)["id"] for l in open(os.path.join(ROOT, "properties.jsonl"))]
        covered = set(CLAIMED) | set(NOT_APPLICABLE) | set(PENDING)
        assert set(props) == covered, (set(props) ^ covered)
        print("MANIFEST.json valid;", len(checks), "checks,", len(na), "not applicable")
    except ImportError:
        print("jsonschema not importable with this python; wrote file unvalidated")

if __name__ == "__main__":
    main()
