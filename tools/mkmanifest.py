#!/usr/bin/env python3
"""Regenerate /verif/MANIFEST.json from the tables below and validate it."""
import json, subprocess, sys, os

ROOT = os.path.dirname(os.path.dirname(os.path.abspath(__file__)))

TECH = "deterministic simulation with fault injection"

CLAIMED = {
    "C06": dict(
        text="Seeded simulation of incarnation histories: the same (document, configuration) is executed on fresh threads whose OS entropy (every RandomState hash seed, via an interposed getrandom) and wall clock (interposed clock_gettime) are re-armed from the run seed, repeated on one thread, and in real svgdx child processes with their own entropy, clock, environment and cwd; all outputs / error Display strings must be byte-equal (local-style id masked when the clock differs). Exploration: evidence, not proof.",
        note="Trusts that the libc interposer reaches every RandomState and SystemTime (self-tested in every worker). CLOCK_MONOTONIC and ASLR are not simulated. The CLI's Debug rendering of errors is not compared.",
        technique=TECH + ": entropy/clock seam (LD_PRELOAD getrandom + clock_gettime), seeded incarnation histories, byte-equality oracle",
        design="DESIGN.md §4 C06",
    ),
}

NOT_APPLICABLE = {
    "C02": "pure function of one input: well-formedness needs an independent XML parser over generated inputs; nothing to schedule, fault or crash",
    "C03": "pure function of one input: infoset comparison of input and output; no schedule, clock, fault or history in it",
    "C04": "pure function of one input: grammar-based generation of plain SVG; no nondeterminism or fault to simulate",
    "C05": "T(T(x)) = T(x) is a two-call composition of a pure function, not a history with state",
    "C08": "pure geometry against an independent bounding-box model (its retry-accumulation slice is only logged under C10)",
    "C09": "pure geometry against a reference layout model",
    "C11": "pure: bounded-exhaustive enumeration of equivalent constraint spellings",
    "C12": "pure geometric inequality over one input",
    "C13": "pure geometry over one input",
    "C16": "translation validation between a loop and its unrolling; pure (loop x retry interaction is covered under C15/C17)",
    "C18": "translation validation between reuse and manual inlining; pure (template-before/after-use placement is exercised as a schedule under C10)",
    "C19": "pure string/geometry function of one input",
    "C20": "pure closure check over the class vocabulary of one output (its ordering nondeterminism is C06)",
}

PENDING = {
    "C01": "check under construction in this session (planned: claimed, see DESIGN.md §4); not claimed until the engine is committed",
    "C07": "check under construction in this session (planned: claimed, see DESIGN.md §4); not claimed until the engine is committed",
    "C10": "check under construction in this session (planned: claimed, see DESIGN.md §4); not claimed until the engine is committed",
    "C14": "check under construction in this session (planned: claimed, see DESIGN.md §4); not claimed until the engine is committed",
    "C15": "check under construction in this session (planned: claimed, see DESIGN.md §4); not claimed until the engine is committed",
    "C17": "check under construction in this session (planned: claimed, see DESIGN.md §4); not claimed until the engine is committed",
}

def main():
    checks = []
    for pid in sorted(CLAIMED):
        c = CLAIMED[pid]
        checks.append({
            "property_id": pid,
            "quick_cmd": f"./check {pid} quick",
            "thorough_cmd": f"./check {pid} thorough",
            "evidence_file": f"/verif/evidence/{pid}.json",
            "replay_cmd_template": "./check --replay {path}",
            "engine": "svgdx-sim",
            "level_claimed": {"category": "exploration", "text": c["text"], "design_ref": c["design"]},
            "level_note": c["note"],
            "technique": c["technique"],
        })
    na = [{"property_id": k, "reason": v} for k, v in sorted({**NOT_APPLICABLE, **PENDING}.items())]
    hooks = subprocess.run(["git", "-C", "/repo", "log", "--format=%H %s", "--grep=^verif hooks"],
                           capture_output=True, text=True).stdout.strip().splitlines()
    m = {
        "version": 1,
        "setup_cmd": "./setup.sh",
        "hooks": {
            "guard": "cargo feature `verif` (off by default)",
            "enable": "the simulator crate /verif/sim depends on svgdx = { path = \"/repo\", features = [\"verif\"] } and is rebuilt by ./build.sh (called by every ./check) from /repo's current working tree",
            "baseline_off_cmd": "cd /repo && cargo test --workspace --no-fail-fast --offline",
            "source_commits": [h.split()[0] for h in reversed(hooks)],
            "add_only": True,
        },
        "engines": [{
            "name": "svgdx-sim",
            "path": "/verif/sim",
            "serves_properties": sorted(CLAIMED),
            "kind_free_text": "deterministic simulator: driver -> contained worker processes -> simulated threads under a seeded turnstile scheduler; fault-injecting BufRead/Write streams; interposed OS entropy and wall clock (/verif/seam); explicit replay files; known-findings list",
        }],
        "checks": checks,
        "not_applicable": na,
        "notes": "One technique family only: deterministic simulation with fault injection. VERIF_SEED (default 1) decides every run; exit 2 = harness error, never a verdict. See DESIGN.md.",
    }
    out = os.path.join(ROOT, "MANIFEST.json")
    json.dump(m, open(out, "w"), indent=1)
    try:
        import jsonschema
        jsonschema.validate(m, json.load(open("/root/.vp/MANIFEST.schema.json")))
        props = [json.loads(l)["id"] for l in open(os.path.join(ROOT, "properties.jsonl"))]
        covered = set(CLAIMED) | set(NOT_APPLICABLE) | set(PENDING)
        assert set(props) == covered, (set(props) ^ covered)
        print("MANIFEST.json valid;", len(checks), "checks,", len(na), "not applicable")
    except ImportError:
        print("jsonschema not importable with this python; wrote file unvalidated")

if __name__ == "__main__":
    main()
