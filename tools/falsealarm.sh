#!/bin/bash
# Apply each property-PRESERVING change (preserving/<set>/<k>/patch.diff: a realistic
# maintenance change under which every property still holds) to /repo, run the checks of
# all claimed properties, undo the change. Every check must exit 0: an exit 1 here is a
# false alarm of the machinery, an exit 2 a harness error. Nothing is committed to /repo.
# usage: tools/falsealarm.sh [tier=quick|medium|thorough] [preserving/<set>/<k> ...]
set -u
ROOT="$(cd "$(dirname "${BASH_SOURCE[0]}")/.." && pwd)"
cd "$ROOT"
TIER="${1:-quick}"; shift 2>/dev/null
DIRS="${*:-$(ls -d preserving/*/*/ 2>/dev/null)}"
PROPS="${VERIF_PROPS:-C01 C06 C07 C10 C14 C15 C17}"
if ! git -C /repo diff --quiet; then echo "refusing: /repo has uncommitted changes" >&2; exit 2; fi
export VERIF_NO_EVIDENCE=1 VERIF_NO_MINIMISE=1
mkdir -p .scratch/falsealarm
for d in $DIRS; do
  d="${d%/}"
  case "$d" in /*) abs="$d";; *) abs="$ROOT/$d";; esac
  if ! git -C /repo apply "$abs/patch.diff" 2>/dev/null; then echo "$d APPLY-FAILED"; continue; fi
  line="$d"
  for id in $PROPS; do
    log=".scratch/falsealarm/$(echo "$d" | tr '/' '_').$id.$TIER.log"
    if [ "$TIER" = medium ]; then
      # thorough-tier generators (larger shapes, more configurations), a fraction of the runs
      case $id in C01) r=5000;; C06) r=1500;; C07) r=4000;; C10) r=4000;; C14) r=20000;; C15) r=20000;; C17) r=6000;; *) r=2000;; esac
      VERIF_RUNS=$r ./check "$id" thorough >"$log" 2>&1; rc=$?
    else
      ./check "$id" "$TIER" >"$log" 2>&1; rc=$?
    fi
    case $rc in
      0) line="$line $id=ok";;
      1) line="$line $id=ALARM($(grep -o 'signature-summary: [^ ]*' "$log" | cut -d' ' -f2 | head -3 | tr '\n' ','))";;
      *) line="$line $id=HARNESS-ERROR($rc)";;
    esac
  done
  git -C /repo checkout -- . ; git -C /repo clean -fdq src tests
  echo "$line"
done
./build.sh >/dev/null 2>&1
