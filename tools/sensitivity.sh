#!/bin/bash
# Apply each seeded property-breaking change (seeded/<id>/<k>/patch.diff) to /repo, run the
# check of its property, undo the change. A seeded change counts as caught when the check
# exits 1 with a VIOLATION line. Nothing is ever committed to /repo.
# usage: tools/sensitivity.sh [tier=quick] [seeded/<id>/<k> ...]
set -u
ROOT="$(cd "$(dirname "${BASH_SOURCE[0]}")/.." && pwd)"
cd "$ROOT"
TIER="${1:-quick}"; shift 2>/dev/null
DIRS="${*:-$(ls -d seeded/*/*/ 2>/dev/null)}"
if ! git -C /repo diff --quiet; then echo "refusing: /repo has uncommitted changes" >&2; exit 2; fi
export VERIF_NO_EVIDENCE=1
mkdir -p .scratch/sensitivity
for d in $DIRS; do
  d="${d%/}"
  id=$(python3 -c "import json,sys; print(json.load(open('$d/meta.json'))['property'])")
  skip=$(python3 -c "import json; print(json.load(open('$d/meta.json')).get('skip_reason','')[:90])")
  if [ -n "$skip" ]; then echo "$d property=$id SKIPPED ($skip...)"; continue; fi
  if ! git -C /repo apply "$ROOT/$d/patch.diff" 2>/dev/null; then echo "$d property=$id APPLY-FAILED"; continue; fi
  log=".scratch/sensitivity/$(echo "$d" | tr '/' '_').$TIER.log"
  ./check "$id" "$TIER" >"$log" 2>&1; rc=$?
  git -C /repo checkout -- . ; git -C /repo clean -fdq src tests
  sigs=$(grep -o 'signature-summary: [^ ]*' "$log" | cut -d' ' -f2 | head -4 | tr '\n' ' ')
  case $rc in
    1) echo "$d property=$id tier=$TIER CAUGHT $sigs";;
    0) echo "$d property=$id tier=$TIER MISSED";;
    *) echo "$d property=$id tier=$TIER HARNESS-ERROR rc=$rc (see $log)";;
  esac
done
./build.sh >/dev/null 2>&1
