#!/bin/bash
# Build the seam shim and the simulator against /repo's CURRENT working tree (hooks on).
# Offline. All output under /verif/.build. Exit 2 on failure (harness error, never a verdict).
set -u
ROOT="$(cd "$(dirname "${BASH_SOURCE[0]}")" && pwd)"
export CARGO_NET_OFFLINE=true
export CARGO_TARGET_DIR="$ROOT/.build/target"
mkdir -p "$ROOT/.build" "$ROOT/.scratch" "$ROOT/evidence" "$ROOT/replays"
LOG="$ROOT/.build/build.log"

# one build at a time (checks may be started in parallel)
exec 9>"$ROOT/.build/lock"
flock 9

if [ ! -f "$ROOT/.build/libverifseam.so" ] || [ "$ROOT/seam/seam.c" -nt "$ROOT/.build/libverifseam.so" ]; then
  gcc -shared -fPIC -O2 -o "$ROOT/.build/libverifseam.so.tmp" "$ROOT/seam/seam.c" -ldl >"$LOG" 2>&1 \
    && mv "$ROOT/.build/libverifseam.so.tmp" "$ROOT/.build/libverifseam.so" \
    || { echo "harness error: cannot build seam shim" >&2; cat "$LOG" >&2; exit 2; }
fi

# the shadow workspace resolves from the repository's own lock file
if [ ! -f "$ROOT/sim/Cargo.lock" ]; then
  cp /repo/Cargo.lock "$ROOT/sim/Cargo.lock"
fi
if ! (cd "$ROOT/sim" && cargo build --release --offline --bins) >"$LOG" 2>&1; then
  # lock file may be stale relative to /repo: retry once from the repository's lock
  cp /repo/Cargo.lock "$ROOT/sim/Cargo.lock"
  if ! (cd "$ROOT/sim" && cargo build --release --offline --bins) >"$LOG" 2>&1; then
    echo "harness error: simulator build failed (see $LOG)" >&2
    tail -n 40 "$LOG" >&2
    exit 2
  fi
fi
exit 0
