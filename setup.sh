#!/bin/bash
# MANIFEST.setup_cmd: build everything once, offline, from files on disk only.
ROOT="$(cd "$(dirname "${BASH_SOURCE[0]}")" && pwd)"
exec "$ROOT/build.sh"
