/* Entropy + wall-clock seam for the svgdx simulator.
 *
 * Loaded with LD_PRELOAD into every worker process and every child `svgdx`
 * process the simulator starts. Rust's std looks `getrandom` up as a weak
 * symbol, so every RandomState (HashMap/HashSet seeds) in svgdx AND its
 * dependencies draws from here; SystemTime::now() ends in clock_gettime.
 *
 * Un-armed, both functions forward to the raw system calls.
 * Armed (verif_seam_arm / env VERIF_ENTROPY), getrandom serves a splitmix64
 * stream; with a fake time set (verif_seam_set_time / env VERIF_FAKE_TIME, in
 * nanoseconds) CLOCK_REALTIME returns exactly that value.
 */
#define _GNU_SOURCE
#include <stdint.h>
#include <stdlib.h>
#include <string.h>
#include <time.h>
#include <unistd.h>
#include <sys/syscall.h>
#include <sys/types.h>

static int      g_init = 0;
static int      g_armed = 0;
static uint64_t g_state = 0;
static int      g_time_set = 0;
static uint64_t g_time_ns = 0;
static uint64_t g_calls_getrandom = 0;
static uint64_t g_bytes_getrandom = 0;
static uint64_t g_calls_clock = 0;
/* per-thread fake time (takes precedence over the process-wide one): every simulated
 * thread can carry the clock of the request it is serving, whatever the interleaving */
static __thread int      t_time_set = 0;
static __thread uint64_t t_time_ns = 0;

static void seam_init(void) {
    if (g_init) return;
    g_init = 1;
    const char *e = getenv("VERIF_ENTROPY");
    if (e && *e) { g_state = strtoull(e, NULL, 10); g_armed = 1; }
    const char *t = getenv("VERIF_FAKE_TIME");
    if (t && *t) { g_time_ns = strtoull(t, NULL, 10); g_time_set = 1; }
}

static uint64_t splitmix64(void) {
    uint64_t z = (g_state += 0x9E3779B97F4A7C15ULL);
    z = (z ^ (z >> 30)) * 0xBF58476D1CE4E5B9ULL;
    z = (z ^ (z >> 27)) * 0x94D049BB133111EBULL;
    return z ^ (z >> 31);
}

void verif_seam_arm(uint64_t seed) { seam_init(); g_state = seed; g_armed = 1; }
void verif_seam_disarm(void) { seam_init(); g_armed = 0; g_time_set = 0; }
void verif_seam_set_time(uint64_t ns) { seam_init(); g_time_ns = ns; g_time_set = 1; }
void verif_seam_set_thread_time(uint64_t ns) { seam_init(); t_time_ns = ns; t_time_set = 1; }
void verif_seam_clear_thread_time(void) { t_time_set = 0; }
/* out[0]=getrandom calls, out[1]=bytes served, out[2]=CLOCK_REALTIME reads while faked */
void verif_seam_stats(uint64_t *out) { out[0] = g_calls_getrandom; out[1] = g_bytes_getrandom; out[2] = g_calls_clock; }
int verif_seam_present(void) { return 1; }

ssize_t getrandom(void *buf, size_t len, unsigned int flags) {
    seam_init();
    if (!g_armed) return syscall(SYS_getrandom, buf, len, flags);
    unsigned char *p = (unsigned char *)buf;
    size_t i = 0;
    while (i < len) {
        uint64_t v = splitmix64();
        size_t n = len - i < 8 ? len - i : 8;
        memcpy(p + i, &v, n);
        i += n;
    }
    g_calls_getrandom++;
    g_bytes_getrandom += len;
    return (ssize_t)len;
}

int clock_gettime(clockid_t clk, struct timespec *ts) {
    seam_init();
    if ((t_time_set || g_time_set) && clk == CLOCK_REALTIME) {
        uint64_t ns = t_time_set ? t_time_ns : g_time_ns;
        ts->tv_sec = (time_t)(ns / 1000000000ULL);
        ts->tv_nsec = (long)(ns % 1000000000ULL);
        g_calls_clock++;
        return 0;
    }
    return (int)syscall(SYS_clock_gettime, clk, ts);
}
